package model

import (
	"encoding/json"
	"reflect"
	"strconv"
	"strings"
)

// Expect is the predicted outcome of one request, from the handler behaviour
// script and the documented mapping of handler outcomes to responses.
type Expect struct {
	None    bool     // no response at all
	Payload string   // expected response JSON ("" = only Code is checked)
	Code    string   // expected error code ("" for success)
	Message string   // expected error message ("" = not checked)
	Pre     []string // expected pre-response payloads, in order
	Events  []string // expected event subjects published by the handler, in order
	Note    string
}

func metaJSON(status int, header bool) string {
	if status == 0 && !header {
		return ""
	}
	var parts []string
	if status != 0 {
		parts = append(parts, `"status":`+strconv.Itoa(status))
	}
	if header {
		parts = append(parts, `"header":{"X-Test":["v"]}`)
	}
	return `,"meta":{` + strings.Join(parts, ",") + `}`
}

// Tricky are strings whose Go quoting differs from their JSON quoting, or
// that are not valid UTF-8; handlers echo them in messages and results.
// The last three are long (seeded change C07t corrupts published payloads
// beyond 1024 bytes): every byte of them needs an escape, so that a payload
// damaged anywhere inside them is no longer the JSON of the value.
var Tricky = []string{"", "\a", "\x1b[0m", "\x00", "é\u2028", "\xff\xfe", "\U000e0001", "quote\"back\\slash", "\v\f", "\x7f",
	strings.Repeat(`"`, 1100), strings.Repeat("\\\"", 2100), strings.Repeat("\"\n", 33000)}

// PadFor returns a long string for some ids and "" for the others; event and
// query response values carry it as an extra property, so that messages of
// every kind also come in sizes of a few and of many kilobytes.
func PadFor(id int) string {
	if id%5 != 2 {
		return ""
	}
	return Tricky[len(Tricky)-1-(id/5)%3]
}

// TrickyFor returns the tricky string used by request id.
func TrickyFor(id int) string { return Tricky[id%len(Tricky)] }

// AnyMsg stands for an error message the library words as it likes: the
// properties fix the error code of a panic that is not a *res.Error, of a
// missing reply, of a value that cannot be encoded and of ParseParams /
// ParseToken failures, not the text. ResponseEqual accepts any string there.
const AnyMsg = "\x00any-message\x00"

// StdMsg holds the messages of the library's predefined error values, which
// handlers send through NotFound(), MethodNotFound() and so on. The scenarios
// fill it from the exported res.Err* variables, so a reworded predefined
// error does not look like a wrong response.
var StdMsg = map[string]string{
	"system.notFound":       "Not found",
	"system.methodNotFound": "Method not found",
	"system.accessDenied":   "Access denied",
	"system.invalidParams":  "Invalid parameters",
	"system.invalidQuery":   "Invalid query",
}

// ResponseEqual compares a response with the expected JSON; where the
// expectation carries AnyMsg as error message, any string message is accepted.
func ResponseEqual(got, want string) bool {
	if !strings.Contains(want, jsonStringInner(AnyMsg)) {
		return JSONEqual(got, want)
	}
	var g map[string]json.RawMessage
	if json.Unmarshal([]byte(got), &g) != nil {
		return false
	}
	var e map[string]json.RawMessage
	if json.Unmarshal(g["error"], &e) != nil {
		return false
	}
	var msg string
	if m, ok := e["message"]; !ok || json.Unmarshal(m, &msg) != nil {
		return false
	}
	e["message"] = json.RawMessage(jsonString(AnyMsg))
	eb, _ := json.Marshal(e)
	g["error"] = eb
	gb, _ := json.Marshal(g)
	return JSONEqual(string(gb), want)
}

func jsonStringInner(s string) string {
	q := jsonString(s)
	return q[1 : len(q)-1]
}

func jsonString(s string) string {
	b, _ := json.Marshal(s)
	return string(b)
}

func errJSON(code, msg, data, meta string) string {
	d := ""
	if data != "" {
		d = `,"data":` + data
	}
	return `{"error":{"code":` + jsonString(code) + `,"message":` + jsonString(msg) + d + `}` + meta + `}`
}

// ParamsT and TokenT are the Go types the handlers parse the params and the
// token of a request into (actions "pp" and "pt"); the model decodes into the
// same types with encoding/json to predict the outcome.
type ParamsT struct {
	N int `json:"n"`
}

// TokenT: see ParamsT.
type TokenT struct {
	T int `json:"t"`
}

// ExpandParse rewrites the actions "pp" (ParseParams) and "pt" (ParseToken)
// of a script for a request with the given raw params and token: into "y"
// when the call returns, into the panic it raises otherwise.
func ExpandParse(script []string, params, token string) []string {
	out := make([]string, 0, len(script))
	for _, a := range script {
		switch a {
		case "pp":
			a = "y"
			if len(params) > 0 {
				var v ParamsT
				if err := json.Unmarshal([]byte(params), &v); err != nil {
					a = "p:reserrmsg:system.invalidParams|" + AnyMsg
				}
			}
		case "pt":
			a = "y"
			if len(token) > 0 {
				var v TokenT
				if err := json.Unmarshal([]byte(token), &v); err != nil {
					a = "p:reserrmsg:system.internalError|" + AnyMsg
				}
			}
		}
		out = append(out, a)
	}
	return out
}

// PredictResponse walks a handler behaviour script. handler is the handler
// kind invoked ("access", "get", "new", "call:..", "auth:.."), id the
// request id the script embeds in its values, isHTTP whether the request was
// flagged as HTTP, rname the resource name and typ the resource type of the
// pattern (0 untyped, 1 model, 2 collection).
func PredictResponse(handler string, script []string, id int, isHTTP bool, rname string, typ int, cid string) Expect {
	var ex Expect
	replied := false
	status := 0
	header := false
	sid := strconv.Itoa(id)
	meta := func() string { return metaJSON(status, header) }
	panicked := func(kind, msg string) {
		// outcome mapping for a panic: *Error verbatim, anything else is
		// system.internalError
		if replied {
			return
		}
		replied = true
		if strings.HasPrefix(kind, "reserrmsg:") {
			cm := strings.SplitN(kind[len("reserrmsg:"):], "|", 2)
			ex.Payload = errJSON(cm[0], cm[1], "", meta())
			ex.Code = cm[0]
			return
		}
		if kind == "reserrbad" {
			// the error cannot be encoded: the request is still answered
			ex.Code = "system.internalError"
			return
		}
		if kind == "reserrnomsg" {
			ex.Payload = errJSON("test.nomsg", "", "", meta())
			ex.Code = "test.nomsg"
			return
		}
		if kind == "reserr" {
			ex.Payload = errJSON("test.custom", "Custom "+sid, "", meta())
			ex.Code = "test.custom"
			return
		}
		ex.Code = "system.internalError"
		_ = msg // the wording of the message is the library's own
		ex.Payload = errJSON(ex.Code, AnyMsg, "", meta())
	}
	for _, a := range script {
		arg := ""
		if i := strings.IndexByte(a, ':'); i >= 0 {
			a, arg = a[:i], a[i+1:]
		}
		switch a {
		case "y", "val":
		case "t":
			ex.Pre = append(ex.Pre, `timeout:"`+arg+`"`)
		case "ev":
			ex.Events = append(ex.Events, "event."+rname+"."+arg)
		case "evraw":
			// the payload cannot be encoded: nothing is published
		case "chg":
			if typ == 2 {
				panicked("str", "res: change event not allowed on Collections")
				return ex
			}
			ex.Events = append(ex.Events, "event."+rname+".change")
		case "add":
			if typ == 1 {
				panicked("str", "res: add event not allowed on models")
				return ex
			}
			ex.Events = append(ex.Events, "event."+rname+".add")
		case "rm":
			if typ == 1 {
				panicked("str", "res: remove event not allowed on models")
				return ex
			}
			ex.Events = append(ex.Events, "event."+rname+".remove")
		case "create":
			ex.Events = append(ex.Events, "event."+rname+".create")
		case "delete":
			ex.Events = append(ex.Events, "event."+rname+".delete")
		case "reaccess":
			ex.Events = append(ex.Events, "event."+rname+".reaccess")
		case "tokenev":
			ex.Events = append(ex.Events, "conn."+cid+".token")
		case "status", "statusif":
			if !isHTTP && a == "statusif" {
				continue // the handler looks at IsHTTP first
			}
			if !isHTTP {
				panicked("str", "call to SetResponseStatus when IsHTTP is false")
				return ex
			}
			if replied {
				return ex
			}
			status = 402
		case "header":
			if !isHTTP {
				panicked("str", "call to ResponseHeader when IsHTTP is false")
				return ex
			}
			if replied {
				return ex
			}
			header = true
		case "p":
			switch arg {
			case "reserr":
				panicked("reserr", "")
			case "reserrnomsg":
				panicked("reserrnomsg", "")
			case "reserrbad":
				panicked("reserrbad", "")
			default:
				if strings.HasPrefix(arg, "reserrmsg:") {
					panicked(arg, "")
				}
			case "err":
				panicked("err", "plain error "+sid)
			case "wraperr":
				panicked("err", "wrapped "+sid+": Not found")
			case "str":
				panicked("str", "string panic "+sid)
			case "int":
				panicked("int", "42")
			case "nil":
				panicked("err", "runtime error: invalid memory address or nil pointer dereference")
			}
			return ex
		case "r":
			if replied {
				// second reply panics; the first response stands
				return ex
			}
			if arg == "panicmarshal" {
				// the value panics while it is encoded: a handler panic
				// before any response
				panicked("str", "marshal panic "+sid)
				return ex
			}
			replied = true
			m := meta()
			switch arg {
			case "ok":
				ex.Payload = `{"result":{"id":` + sid + `,"s":"q\"uo\\te\n<é>","t":` + jsonString(TrickyFor(id)) + `}` + m + `}`
			case "oknil":
				ex.Payload = `{"result":null` + m + `}`
			case "model":
				ex.Payload = `{"result":{"model":{"id":` + sid + `,"ref":{"rid":"test.ref"},"data":{"data":[1,2]}}}}`
			case "qmodel":
				ex.Payload = `{"result":{"model":{"id":` + sid + `},"query":"q=1"}}`
			case "coll":
				ex.Payload = `{"result":{"collection":["a",` + sid + `,null,{"rid":"test.soft","soft":true}]}}`
			case "qcoll":
				ex.Payload = `{"result":{"collection":[` + sid + `],"query":"q=2"}}`
			case "notfound":
				ex.Code = "system.notFound"
				ex.Payload = errJSON(ex.Code, StdMsg[ex.Code], "", m)
			case "err":
				ex.Code = "test.err"
				ex.Payload = errJSON(ex.Code, "Err "+sid+TrickyFor(id), `{"x":1}`, m)
			case "errnomsg":
				ex.Code = "test.nomsg"
				ex.Payload = errJSON(ex.Code, "", "", m)
			case "plainerr":
				ex.Code = "system.internalError"
				ex.Payload = errJSON(ex.Code, AnyMsg, "", m)
			case "granted":
				ex.Payload = `{"result":{"get":true,"call":"*"}` + m + `}`
			case "denied", "accessnone":
				ex.Code = "system.accessDenied"
				ex.Payload = errJSON(ex.Code, StdMsg[ex.Code], "", m)
			case "access":
				ex.Payload = `{"result":{"get":true,"call":"set,foo"}` + m + `}`
			case "new":
				ex.Payload = `{"result":{"rid":"test.created.` + sid + `"}}`
			case "resource":
				ex.Payload = `{"resource":{"rid":"test.res.` + sid + `"}` + m + `}`
			case "invparams":
				ex.Code = "system.invalidParams"
				ex.Payload = errJSON(ex.Code, StdMsg[ex.Code], "", m)
			case "invparamsmsg":
				ex.Code = "system.invalidParams"
				ex.Payload = errJSON(ex.Code, "bad params "+sid+TrickyFor(id), "", m)
			case "invquery":
				ex.Code = "system.invalidQuery"
				ex.Payload = errJSON(ex.Code, StdMsg[ex.Code], "", m)
			case "invquerymsg":
				ex.Code = "system.invalidQuery"
				ex.Payload = errJSON(ex.Code, "bad query "+sid+TrickyFor(id), "", m)
			case "methodnotfound":
				ex.Code = "system.methodNotFound"
				ex.Payload = errJSON(ex.Code, StdMsg[ex.Code], "", m)
			case "unmarshalable":
				// a value that cannot be marshalled must produce
				// system.internalError
				ex.Code = "system.internalError"
			}
		}
	}
	if !replied {
		ex.Code = "system.internalError"
		ex.Payload = errJSON(ex.Code, AnyMsg, "", "")
		ex.Note = "missing-response"
	}
	return ex
}

// JSONEqual compares two JSON texts structurally.
func JSONEqual(a, b string) bool {
	var x, y interface{}
	if json.Unmarshal([]byte(a), &x) != nil || json.Unmarshal([]byte(b), &y) != nil {
		return false
	}
	return reflect.DeepEqual(x, y)
}

// ErrorCode extracts error.code from a response payload ("" if it is not an
// error response).
func ErrorCode(payload []byte) string {
	var r struct {
		Error *struct {
			Code string `json:"code"`
		} `json:"error"`
	}
	if json.Unmarshal(payload, &r) != nil || r.Error == nil {
		return ""
	}
	return r.Error.Code
}
