// Package model holds the executable reference models the oracles compare
// go-res against. Nothing in here calls go-res.
package model

import "strings"

// Pat is a fully qualified registered resource pattern (service name and
// mount paths included) with its group template.
type Pat struct {
	ID       int
	Full     string // e.g. "test.sub.model.$id"
	Group    string // group template: "" (resource name), literal, or with ${tag}
	Parallel bool
}

func tokKind(t string) int {
	switch {
	case t == ">":
		return 2
	case strings.HasPrefix(t, "$") || strings.HasPrefix(t, "*"):
		return 1
	}
	return 0
}

// matches reports whether the name tokens are matched by the pattern tokens
// and returns the specificity vector.
func matches(pt, nt []string) ([]int, bool) {
	var vec []int
	for i, p := range pt {
		k := tokKind(p)
		if k == 2 {
			if len(nt) <= i {
				return nil, false
			}
			return append(vec, 2), true
		}
		if i >= len(nt) {
			return nil, false
		}
		if k == 0 && p != nt[i] {
			return nil, false
		}
		vec = append(vec, k)
	}
	if len(pt) != len(nt) {
		return nil, false
	}
	return vec, true
}

func less(a, b []int) bool {
	for i := 0; i < len(a) && i < len(b); i++ {
		if a[i] != b[i] {
			return a[i] < b[i]
		}
	}
	return len(a) > len(b) // longer (more tokens matched before a wildcard) is more specific
}

// Match returns the most specific pattern matching the resource name, its
// path parameters and the group id; nil if none matches.
func Match(pats []Pat, rname string) (*Pat, map[string]string, string) {
	if rname == "" {
		return nil, nil, ""
	}
	nt := strings.Split(rname, ".")
	var best *Pat
	var bestVec []int
	for i := range pats {
		p := &pats[i]
		vec, ok := matches(strings.Split(p.Full, "."), nt)
		if !ok {
			continue
		}
		if best == nil || less(vec, bestVec) {
			best, bestVec = p, vec
		}
	}
	if best == nil {
		return nil, nil, ""
	}
	params := map[string]string{}
	for i, t := range strings.Split(best.Full, ".") {
		if strings.HasPrefix(t, "$") {
			params[t[1:]] = nt[i]
		}
	}
	if len(params) == 0 {
		params = nil
	}
	return best, params, GroupOf(best, rname, params)
}

// GroupOf computes the worker group id of a resource.
func GroupOf(p *Pat, rname string, params map[string]string) string {
	if p.Parallel {
		return ""
	}
	if p.Group == "" {
		return rname
	}
	g := p.Group
	var b strings.Builder
	for {
		i := strings.Index(g, "${")
		if i < 0 {
			b.WriteString(g)
			break
		}
		b.WriteString(g[:i])
		j := strings.IndexByte(g[i:], '}')
		b.WriteString(params[g[i+2:i+j]])
		g = g[i+j+1:]
	}
	return b.String()
}
