package model

import (
	"encoding/json"
	"fmt"
	"reflect"
)

// CacheEntry is what a reference RES client holds for one resource.
type CacheEntry struct {
	Present bool
	Synced  bool // data is known (false after a create event until refetched)
	IsColl  bool
	Model   map[string]interface{}
	Coll    []interface{}
	Err     string // error code when not present
}

// ParseGet interprets a get response.
func ParseGet(resp []byte) (CacheEntry, error) {
	var r struct {
		Result *struct {
			Model      map[string]interface{} `json:"model"`
			Collection *[]interface{}         `json:"collection"`
		} `json:"result"`
		Error *struct {
			Code string `json:"code"`
		} `json:"error"`
	}
	if err := json.Unmarshal(resp, &r); err != nil {
		return CacheEntry{}, err
	}
	switch {
	case r.Error != nil:
		return CacheEntry{Err: r.Error.Code}, nil
	case r.Result != nil && r.Result.Model != nil:
		return CacheEntry{Present: true, Synced: true, Model: r.Result.Model}, nil
	case r.Result != nil && r.Result.Collection != nil:
		return CacheEntry{Present: true, Synced: true, IsColl: true, Coll: *r.Result.Collection}, nil
	}
	return CacheEntry{}, fmt.Errorf("unrecognised get response %s", resp)
}

func isDeleteAction(v interface{}) bool {
	m, ok := v.(map[string]interface{})
	return ok && len(m) == 1 && m["action"] == "delete"
}

// Apply applies one event the way a RES client does. It returns a
// description of what is wrong with the event, or "".
func (c *CacheEntry) Apply(event string, payload []byte) string {
	switch event {
	case "create":
		if c.Present {
			return "create event for a resource the client holds as existing"
		}
		c.Present, c.Synced = true, false
		c.Model, c.Coll = nil, nil
		return ""
	case "delete":
		if !c.Present {
			return "delete event for a resource the client holds as missing"
		}
		c.Present, c.Synced = false, false
		c.Model, c.Coll = nil, nil
		return ""
	}
	if !c.Present {
		return event + " event for a resource the client holds as missing"
	}
	if !c.Synced {
		return ""
	}
	switch event {
	case "change":
		if c.IsColl {
			return "change event on a collection"
		}
		var ev struct {
			Values map[string]interface{} `json:"values"`
		}
		if err := json.Unmarshal(payload, &ev); err != nil || ev.Values == nil {
			return "malformed change event"
		}
		for k, v := range ev.Values {
			if isDeleteAction(v) {
				delete(c.Model, k)
			} else {
				c.Model[k] = v
			}
		}
	case "add":
		if !c.IsColl {
			return "add event on a model"
		}
		var ev struct {
			Value interface{} `json:"value"`
			Idx   int         `json:"idx"`
		}
		if err := json.Unmarshal(payload, &ev); err != nil {
			return "malformed add event"
		}
		if ev.Idx < 0 || ev.Idx > len(c.Coll) {
			return fmt.Sprintf("add event index %d out of range for a collection of length %d", ev.Idx, len(c.Coll))
		}
		c.Coll = append(c.Coll, nil)
		copy(c.Coll[ev.Idx+1:], c.Coll[ev.Idx:])
		c.Coll[ev.Idx] = ev.Value
	case "remove":
		if !c.IsColl {
			return "remove event on a model"
		}
		var ev struct {
			Idx int `json:"idx"`
		}
		if err := json.Unmarshal(payload, &ev); err != nil {
			return "malformed remove event"
		}
		if ev.Idx < 0 || ev.Idx >= len(c.Coll) {
			return fmt.Sprintf("remove event index %d out of range for a collection of length %d", ev.Idx, len(c.Coll))
		}
		c.Coll = append(c.Coll[:ev.Idx], c.Coll[ev.Idx+1:]...)
	}
	return ""
}

// SameData reports whether two present entries hold the same data.
func (c CacheEntry) SameData(o CacheEntry) bool {
	if c.IsColl != o.IsColl {
		return false
	}
	if c.IsColl {
		if len(c.Coll) == 0 && len(o.Coll) == 0 {
			return true
		}
		return reflect.DeepEqual(c.Coll, o.Coll)
	}
	if len(c.Model) == 0 && len(o.Model) == 0 {
		return true
	}
	return reflect.DeepEqual(c.Model, o.Model)
}

// String renders the entry.
func (c CacheEntry) String() string {
	if !c.Present {
		return "<missing " + c.Err + ">"
	}
	if !c.Synced {
		return "<present, data unknown>"
	}
	var b []byte
	if c.IsColl {
		b, _ = json.Marshal(c.Coll)
	} else {
		b, _ = json.Marshal(c.Model)
	}
	return string(b)
}

// Clone copies the entry.
func (c CacheEntry) Clone() CacheEntry {
	n := c
	if c.Model != nil {
		n.Model = map[string]interface{}{}
		for k, v := range c.Model {
			n.Model[k] = v
		}
	}
	if c.Coll != nil {
		n.Coll = append([]interface{}(nil), c.Coll...)
	}
	return n
}
