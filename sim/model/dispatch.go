package model

import (
	"encoding/json"
	"strings"
)

// HandlerSet describes which handlers a pattern registered.
type HandlerSet struct {
	Access bool
	Get    bool
	New    bool
	Calls  []string
	Auths  []string
}

// Dispatch is the predicted outcome of a request before any handler runs.
type Dispatch struct {
	Handler  string // "", "access", "get", "new", "call:<registered>", "auth:<registered>"
	Response string // "", "none", "system.notFound", "system.methodNotFound", "system.internalError"
	PatID    int
	Params   map[string]string
	Group    string
	RName    string
	Method   string
	RType    string
}

type reqPayload struct {
	CID        string              `json:"cid"`
	Params     json.RawMessage     `json:"params"`
	Token      json.RawMessage     `json:"token"`
	Header     map[string][]string `json:"header"`
	Host       string              `json:"host"`
	RemoteAddr string              `json:"remoteAddr"`
	URI        string              `json:"uri"`
	Query      string              `json:"query"`
	IsHTTP     bool                `json:"isHttp"`
}

func has(l []string, m string) bool {
	for _, x := range l {
		if x == m {
			return true
		}
	}
	return false
}

// Predict is the executable dispatch model written from the RES service
// protocol and the go-res documentation.
func Predict(pats []Pat, hs []HandlerSet, subject string, payload []byte, hasReply bool) Dispatch {
	d := Dispatch{PatID: -1}
	if !hasReply {
		d.Response = "none"
		return d
	}
	i := strings.IndexByte(subject, '.')
	if i < 0 {
		d.Response = "none"
		return d
	}
	d.RType, d.RName = subject[:i], subject[i+1:]
	if d.RType == "call" || d.RType == "auth" {
		j := strings.LastIndexByte(d.RName, '.')
		if j < 0 {
			d.Response = "none"
			return d
		}
		d.Method = d.RName[j+1:]
		d.RName = d.RName[:j]
	}
	p, params, g := Match(pats, d.RName)
	if p == nil {
		d.Group = d.RName
		d.Response = "system.notFound"
		return d
	}
	d.PatID, d.Params, d.Group = p.ID, params, g
	if len(payload) > 0 {
		var rp reqPayload
		if err := json.Unmarshal(payload, &rp); err != nil {
			d.Response = "system.internalError"
			return d
		}
	}
	h := hs[p.ID]
	switch d.RType {
	case "access":
		if !h.Access {
			d.Response = "none"
			return d
		}
		d.Handler = "access"
	case "get":
		if !h.Get {
			d.Response = "system.notFound"
			return d
		}
		d.Handler = "get"
	case "call":
		switch {
		case d.Method == "new" && h.New:
			d.Handler = "new"
		case has(h.Calls, d.Method):
			d.Handler = "call:" + d.Method
		case has(h.Calls, "*"):
			d.Handler = "call:*"
		default:
			d.Response = "system.methodNotFound"
		}
	case "auth":
		switch {
		case has(h.Auths, d.Method):
			d.Handler = "auth:" + d.Method
		case has(h.Auths, "*"):
			d.Handler = "auth:*"
		default:
			d.Response = "system.methodNotFound"
		}
	default:
		d.Response = "none"
	}
	return d
}

// ReqFields is the decoded request payload per the RES service protocol.
type ReqFields struct {
	CID        string
	Params     string
	Token      string
	Header     map[string][]string
	Host       string
	RemoteAddr string
	URI        string
	Query      string
	IsHTTP     bool
}

// ParseRequest decodes a request payload. ok is false when the payload is
// not a JSON encoding of a request object.
func ParseRequest(payload []byte) (ReqFields, bool) {
	var f ReqFields
	if len(payload) == 0 {
		return f, true
	}
	var rp reqPayload
	if err := json.Unmarshal(payload, &rp); err != nil {
		return f, false
	}
	f = ReqFields{CID: rp.CID, Params: string(rp.Params), Token: string(rp.Token), Header: rp.Header, Host: rp.Host,
		RemoteAddr: rp.RemoteAddr, URI: rp.URI, Query: rp.Query, IsHTTP: rp.IsHTTP}
	return f, true
}
