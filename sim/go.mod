module verif/sim

go 1.26.8

require (
	github.com/anishathalye/porcupine v1.3.0
	github.com/dgraph-io/badger v1.6.2
	github.com/jirenius/go-res v0.0.0
	github.com/jirenius/keylock v1.0.0
	github.com/jirenius/taskqueue v1.1.0
	github.com/nats-io/nats.go v1.10.0
)

require (
	github.com/AndreasBriese/bbloom v0.0.0-20190825152654-46b345b51c96 // indirect
	github.com/cespare/xxhash v1.1.0 // indirect
	github.com/dgraph-io/ristretto v0.0.2 // indirect
	github.com/dustin/go-humanize v1.0.0 // indirect
	github.com/golang/protobuf v1.4.0 // indirect
	github.com/jirenius/timerqueue v1.0.0 // indirect
	github.com/nats-io/jwt v0.3.2 // indirect
	github.com/nats-io/nkeys v0.1.4 // indirect
	github.com/nats-io/nuid v1.0.1 // indirect
	github.com/pkg/errors v0.8.1 // indirect
	golang.org/x/crypto v0.0.0-20200323165209-0ec3e9974c59 // indirect
	golang.org/x/net v0.0.0-20190620200207-3b0461eec859 // indirect
	golang.org/x/sys v0.0.0-20190726091711-fc99dfbffb4e // indirect
	google.golang.org/protobuf v1.22.0 // indirect
)

replace github.com/jirenius/go-res => /repo

replace github.com/jirenius/keylock => ./third_party/keylock

replace github.com/jirenius/taskqueue => ./third_party/taskqueue
