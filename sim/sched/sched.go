// Package sched is the deterministic scheduler of the simulator.
//
// Every run executes inside one testing/synctest bubble. Real goroutines are
// used, but they proceed one at a time: a goroutine that reaches a yield point
// parks on a private gate channel, and the scheduler goroutine (the root of
// the bubble) picks which parked goroutine, or which environment action
// (message delivery, time advance, fault), happens next. Every pick is read
// from the choice tape, so tape + code is one exactly repeatable execution.
package sched

import (
	"fmt"
	"hash/fnv"
	"runtime"
	"sort"
	"strconv"
	"sync"
	"sync/atomic"
	"testing/synctest"
)

const maxTasks = 512

// Task is one goroutine known to the scheduler.
type Task struct {
	Name    string // canonical name; for library goroutines assigned on first release
	Role    string
	Point   string
	Arg     string
	Harness bool

	gid    uint64
	gate   chan struct{}
	parked bool
	done   bool
	// NoYield > 0 suppresses parking of this task (used while it holds a
	// lock that cannot be parked with).
	NoYield int

	// rawArg is the argument as the task passed it; it is canonicalised by
	// the scheduler at the next decision point (needCanon), when every
	// goroutine is blocked, so that names are not handed out in the order
	// in which goroutines woken in the same step happen to arrive
	rawArg    string
	needCanon bool

	// spinTried: parked at lock.spin and already retried since the last
	// step (see Wait)
	spinTried bool
}

// Action is something the scheduler can choose to do next.
type Action struct {
	Label string
	Do    func()
	task  *Task
}

// Provider returns the environment actions enabled right now, in a canonical
// order. It is only called by the scheduler goroutine at decision points.
type Provider func() []Action

// TraceRec is one scheduler decision.
type TraceRec struct {
	Step  uint64 `json:"step"`
	Label string `json:"label"`
}

// Sim is one simulated run.
type Sim struct {
	Tape *Tape

	// Enabled tells which optional yield points park in this run. A nil map
	// enables all points.
	Optional map[string]bool
	// Canon canonicalises hook arguments (e.g. random inbox names); it may
	// hand out a new canonical name. CanonPeek, when set, only applies the
	// names handed out so far and masks the rest: Yield then uses CanonPeek
	// and the scheduler calls Canon at the next decision point, in the
	// canonical order of the parked tasks.
	Canon     func(string) string
	CanonPeek func(string) string
	// Observer, when set, sees every hook call (enabled or not) on the
	// calling goroutine before it parks.
	Observer func(point, arg string)
	// RoleOf names a library goroutine from the first point it parks at.
	RoleOf func(point string) string

	mu        sync.Mutex
	tasks     [maxTasks]*Task
	ntasks    int
	roleCount map[string]int

	step      atomic.Uint64
	SpinParks atomic.Int64
	seq       atomic.Uint64
	running   *Task // the task released by the last decision (nil for env actions)
	providers []Provider
	Trace     []TraceRec
	KeepTrace bool
	hash      uint64
	schedHash uint64
	Probes    map[string]int
	probeMu   sync.Mutex

	rootGid   uint64
	sticky    int
	stickySet bool
	stopped   atomic.Bool
	// PassThrough makes every yield point return immediately (set by the
	// scheduler goroutine while it runs instrumented code itself and waits
	// for goroutines that code spawns).
	PassThrough atomic.Bool
	// Panics recovered in harness tasks.
	Panics []string
}

// mandatory yield points are needed for determinism (a goroutine woken by the
// running task must park before touching shared state) and are never
// disabled.
var mandatory = map[string]bool{
	"worker.wake":          true,
	"worker.start":         true,
	"queryEventExpire":     true, // woken by the clock, possibly together with another timer
	"Shutdown":             true,
	"runWith.afterSignal":  true,
	"task.start":           true,
	"call.return":          true,
	"actor.op":             true,
	"life.wait":            true,
	"serve.retrywait":      true,
	"serve.wait":           true,
	"conn.callback":        true,
	"keylock.wake":         true,
	"lock.spin":            true, // a mutex that was not free: parks until released (cmd/autoyield)
	"tq.wake":              true, // waiters of a full task queue, all woken by one pop
	"tq.start":             true, // first act of a task queue worker
	"updateIndex.start":    true,
	"handleChange.afterDo": true,
	"store.open":           true,
	"mut.op":               true,
	"mut.intxn":            true,
	"query.start":          true,
	"query.next":           true,
	"crash.op":             true,
	"crash.restart":        true,
}

// New creates a simulation driven by the tape.
func New(tape *Tape) *Sim {
	s := &Sim{Tape: tape, roleCount: map[string]int{}, Probes: map[string]int{}}
	s.hash = 1469598103934665603
	s.schedHash = 1469598103934665603
	return s
}

// Step returns the number of decisions taken so far.
func (s *Sim) Step() uint64 { return s.step.Load() }

// SpinParksCount is the number of times a goroutine found a mutex taken and
// parked at lock.spin (reach metric; includes the silent, transient ones).
func (s *Sim) SpinParksCount() int64 { return s.SpinParks.Load() }

// Seq returns a fresh global event sequence number (total order of recorded
// history events).
func (s *Sim) Seq() uint64 { return s.seq.Add(1) }

// Probe counts a rare-condition hit.
func (s *Sim) Probe(name string) {
	raceDisable()
	s.probeMu.Lock()
	s.Probes[name]++
	s.probeMu.Unlock()
	raceEnable()
}

// AddProvider registers an environment action provider.
func (s *Sim) AddProvider(p Provider) { s.providers = append(s.providers, p) }

// Hash returns the hash of the full decision trace (labels include task
// names, points and args).
func (s *Sim) Hash() uint64 { return s.hash }

// SchedHash returns the hash over (role, point) decisions only.
func (s *Sim) SchedHash() uint64 { return s.schedHash }

func goid() uint64 {
	var buf [64]byte
	n := runtime.Stack(buf[:], false)
	// "goroutine 123 ["
	var id uint64
	for i := len("goroutine "); i < n; i++ {
		c := buf[i]
		if c < '0' || c > '9' {
			break
		}
		id = id*10 + uint64(c-'0')
	}
	return id
}

//go:norace
func (s *Sim) lookup(gid uint64) *Task {
	for i := 0; i < s.ntasks; i++ {
		if t := s.tasks[i]; t.gid == gid && !t.done {
			return t
		}
	}
	return nil
}

//go:norace
func (s *Sim) addTask(t *Task) {
	if s.ntasks >= maxTasks {
		panic("sched: too many tasks")
	}
	s.tasks[s.ntasks] = t
	s.ntasks++
}

// Current returns the task of the calling goroutine, or nil.
//
//go:norace
func (s *Sim) Current() *Task {
	raceDisable()
	gid := goid()
	s.mu.Lock()
	t := s.lookup(gid)
	s.mu.Unlock()
	raceEnable()
	return t
}

// IsEnabled reports whether the point parks in this run.
func (s *Sim) IsEnabled(point string) bool {
	if mandatory[point] {
		return true
	}
	if s.Optional == nil {
		return true
	}
	return s.Optional[point]
}

// Yield is a yield point: the calling goroutine parks until the scheduler
// releases it. It is installed as the hook of the instrumented packages and
// also called by harness code.
//
//go:norace
func (s *Sim) Yield(point, arg string) {
	if s.stopped.Load() {
		// Run is over: park forever (the bubble is abandoned).
		select {}
	}
	if s.PassThrough.Load() {
		return
	}
	if s.Observer != nil {
		s.Observer(point, arg)
	}
	if point == "lock.spin" {
		s.SpinParks.Add(1) // (not a Probe: its map must not be touched from here in the race build)
	}
	if !s.IsEnabled(point) {
		return
	}
	raceDisable()
	gid := goid()
	if gid == s.rootGid {
		// the scheduler goroutine itself runs instrumented code (e.g. when
		// it opens a crash image): never park it
		raceEnable()
		return
	}
	s.mu.Lock()
	t := s.lookup(gid)
	if t == nil {
		role := "anon"
		if s.RoleOf != nil {
			role = s.RoleOf(point)
		}
		t = &Task{Role: role, gid: gid, gate: make(chan struct{})}
		s.addTask(t)
	}
	if t.NoYield > 0 {
		s.mu.Unlock()
		raceEnable()
		return
	}
	if s.Canon != nil && s.CanonPeek != nil {
		t.rawArg, t.needCanon = arg, true
		arg = s.CanonPeek(arg)
	} else if s.Canon != nil {
		arg = s.Canon(arg)
	}
	t.Point, t.Arg = point, arg
	t.parked = true
	s.mu.Unlock()
	<-t.gate
	raceEnable()
}

// Go starts a harness task. It must be called from inside the bubble. The
// task parks at "task.start" before running f.
func (s *Sim) Go(name string, f func()) *Task {
	t := &Task{Name: name, Role: name, Harness: true, gate: make(chan struct{})}
	ready := make(chan struct{})
	go func() {
		raceDisable()
		t.gid = goid()
		s.mu.Lock()
		s.addTask(t)
		s.mu.Unlock()
		close(ready)
		raceEnable()
		defer func() {
			if v := recover(); v != nil {
				buf := make([]byte, 4096)
				n := runtime.Stack(buf, false)
				s.mu.Lock()
				s.Panics = append(s.Panics, fmt.Sprintf("task %s: %v\n%s", name, v, buf[:n]))
				s.mu.Unlock()
			}
			raceDisable()
			s.mu.Lock()
			t.done = true
			s.mu.Unlock()
			raceEnable()
		}()
		s.Yield("task.start", "")
		f()
	}()
	<-ready
	return t
}

// Choose reads the next decision from the tape.
func (s *Sim) Choose(n int, what string) int {
	if n <= 1 {
		return 0
	}
	return s.Tape.Choose(n)
}

//go:norace
func (s *Sim) parkedTasks() []*Task {
	s.mu.Lock()
	var out, pend []*Task
	for i := 0; i < s.ntasks; i++ {
		if t := s.tasks[i]; t.parked && !t.done {
			out = append(out, t)
			if t.needCanon {
				pend = append(pend, t)
			}
		}
	}
	if len(pend) > 0 {
		// new canonical names in the canonical order of the tasks (the
		// masked argument stands for names not handed out yet)
		for _, t := range pend {
			t.Arg = s.CanonPeek(t.rawArg)
		}
		sort.SliceStable(pend, func(i, j int) bool {
			a, b := pend[i], pend[j]
			ka, kb := a.Name, b.Name
			if ka == "" {
				ka = "~" + a.Role
			}
			if kb == "" {
				kb = "~" + b.Role
			}
			if ka != kb {
				return ka < kb
			}
			if a.Point != b.Point {
				return a.Point < b.Point
			}
			return a.Arg < b.Arg
		})
		for _, t := range pend {
			t.Arg = s.Canon(t.rawArg)
			t.needCanon = false
		}
	}
	s.mu.Unlock()
	sort.SliceStable(out, func(i, j int) bool {
		a, b := out[i], out[j]
		ka, kb := a.Name, b.Name
		if ka == "" {
			ka = "~" + a.Role
		}
		if kb == "" {
			kb = "~" + b.Role
		}
		if ka != kb {
			return ka < kb
		}
		if a.Point != b.Point {
			return a.Point < b.Point
		}
		return a.Arg < b.Arg
	})
	return out
}

// Parked returns a snapshot of the parked tasks in canonical order. Only for
// the scheduler goroutine at decision points.
func (s *Sim) Parked() []*Task {
	raceDisable()
	defer raceEnable()
	return s.parkedTasks()
}

// TaskByName returns the harness task with the given name.
func (s *Sim) TaskByName(name string) *Task {
	raceDisable()
	defer raceEnable()
	s.mu.Lock()
	defer s.mu.Unlock()
	for i := 0; i < s.ntasks; i++ {
		if s.tasks[i].Name == name {
			return s.tasks[i]
		}
	}
	return nil
}

// IsParked reports whether t is parked (scheduler goroutine only).
//
//go:norace
func (t *Task) IsParked() bool { return t.parked && !t.done }

// IsDone reports whether the harness task has returned.
//
//go:norace
func (t *Task) IsDone() bool { return t.done }

//go:norace
func (s *Sim) release(t *Task) {
	// (no fmt here: fmt uses a sync.Pool, whose hand-offs would look like
	// races while synchronisation events are hidden)
	raceDisable()
	s.mu.Lock()
	if t.Name == "" {
		n := 0
		for i := 0; i < s.ntasks; i++ {
			if s.tasks[i].Role == t.Role && s.tasks[i].Name != "" {
				n++
			}
		}
		t.Name = t.Role + "#" + strconv.Itoa(n+1)
	}
	t.parked = false
	s.running = t
	s.mu.Unlock()
	t.gate <- struct{}{}
	raceEnable()
}

func (s *Sim) record(label, schedLabel string) {
	st := s.step.Add(1)
	h := fnv.New64a()
	var b [8]byte
	for i := 0; i < 8; i++ {
		b[i] = byte(s.hash >> (8 * i))
	}
	h.Write(b[:])
	h.Write([]byte(label))
	s.hash = h.Sum64()
	h2 := fnv.New64a()
	for i := 0; i < 8; i++ {
		b[i] = byte(s.schedHash >> (8 * i))
	}
	h2.Write(b[:])
	h2.Write([]byte(schedLabel))
	s.schedHash = h2.Sum64()
	if s.KeepTrace {
		s.Trace = append(s.Trace, TraceRec{Step: st, Label: label})
	}
}

// Filter, when set, restricts which parked tasks may be released at this
// decision (e.g. a harness task the model knows would block).
type Filter func(t *Task) bool

// Decide performs one scheduler decision: wait for quiescence, collect the
// enabled actions, choose, perform. It returns false when nothing is enabled.
// filter may be nil.
func (s *Sim) Decide(filter Filter) bool {
	s.Wait()
	acts := s.Enabled(filter)
	if len(acts) == 0 {
		return false
	}
	s.Perform(s.Pick(acts))
	return true
}

// Pick chooses among the enabled actions from the tape. The first decision
// of a run draws its stickiness (the probability, in percent, of staying with
// the task that ran last when it is enabled again): runs with long
// uninterrupted stretches of one task reach states that uniformly random
// switching rarely does. Everything is read from the tape, so it replays.
func (s *Sim) Pick(acts []Action) Action {
	if !s.stickySet {
		s.stickySet = true
		s.sticky = [4]int{0, 0, 50, 85}[s.Tape.Choose(4)]
	}
	if s.sticky > 0 && s.running != nil && len(acts) > 1 {
		for _, a := range acts {
			if a.task == s.running {
				if s.Tape.Choose(100) >= 100-s.sticky { // a zero draw (shrunk or exhausted tape) never sticks
					return a
				}
				break
			}
		}
	}
	return acts[s.Choose(len(acts), "action")]
}

// Enabled returns the canonical list of enabled actions. Call only after
// synctest.Wait().
func (s *Sim) Enabled(filter Filter) []Action {
	var acts []Action
	for _, t := range s.Parked() {
		if t.Point == "lock.spin" {
			continue // retried by Wait, never a choice of the tape
		}
		if filter != nil && !filter(t) {
			continue
		}
		t := t
		name := t.Name
		if name == "" {
			name = t.Role + "#?"
		}
		acts = append(acts, Action{Label: "run " + name + " @" + t.Point + "(" + t.Arg + ")", task: t})
	}
	for _, p := range s.providers {
		acts = append(acts, p()...)
	}
	return acts
}

// Perform executes the action and waits for the system to settle.
func (s *Sim) Perform(a Action) {
	raceDisable()
	s.spinRetry()
	raceEnable()
	if a.task != nil {
		t := a.task
		// name is assigned in release; compute label after.
		role, point := t.Role, t.Point
		arg := t.Arg
		s.release(t)
		s.record("run "+t.Name+" @"+point+"("+arg+")", role+"@"+point)
	} else {
		s.running = nil
		s.record(a.Label, a.Label)
		a.Do()
	}
	s.Wait()
}

// Stop marks the run as over; goroutines reaching a yield point afterwards
// block forever.
func (s *Sim) Stop() { s.stopped.Store(true) }

// Wait blocks until every other goroutine of the bubble is durably blocked.
//
// A goroutine parked at "lock.spin" found a mutex taken (cmd/autoyield turns
// lock statements into try-lock loops around that yield point). Mostly the
// holder is a goroutine that was running at the same moment and gives the
// mutex up before it blocks - the worker that calls wg.Done() and then
// unlocks, while Shutdown, woken by the Done, already asks for the lock -,
// and whether the attempt failed is then a matter of real timing. Such parks
// must not show in the schedule: once everything has settled each of them is
// let go again, silently (no step, no tape, no trace entry), in canonical
// order; a goroutine whose mutex is held by a parked task comes back to
// lock.spin and is tried again after the next step.
//
//go:norace
func (s *Sim) Wait() {
	raceDisable()
	synctest.Wait()
	for {
		var sp *Task
		for _, t := range s.parkedTasks() {
			if t.Point == "lock.spin" && !t.spinTried {
				sp = t
				break
			}
		}
		if sp == nil {
			break
		}
		s.mu.Lock()
		sp.spinTried = true
		sp.parked = false
		site := sp.Arg
		s.mu.Unlock()
		sp.gate <- struct{}{}
		synctest.Wait()
		s.mu.Lock()
		if !(sp.parked && !sp.done && sp.Point == "lock.spin" && sp.Arg == site) {
			// it got its mutex and went on, perhaps giving up another
			// one that a goroutine tried before it is waiting for:
			// everybody may try again
			for i := 0; i < s.ntasks; i++ {
				s.tasks[i].spinTried = false
			}
		}
		s.mu.Unlock()
	}
	raceEnable()
}

// spinRetry lets the goroutines waiting at lock.spin try again after the
// next step.
//
//go:norace
func (s *Sim) spinRetry() {
	s.mu.Lock()
	for i := 0; i < s.ntasks; i++ {
		s.tasks[i].spinTried = false
	}
	s.mu.Unlock()
}

// TaskAction returns the action releasing the parked task t.
func (s *Sim) TaskAction(t *Task) Action {
	name := t.Name
	if name == "" {
		name = t.Role + "#?"
	}
	return Action{Label: "run " + name + " @" + t.Point + "(" + t.Arg + ")", task: t}
}

// MarkRoot records the calling goroutine as the scheduler goroutine.
func (s *Sim) MarkRoot() { s.rootGid = goid() }

// Note folds a label into the trace and schedule hashes without taking a
// decision (used to make the case part of the explored-interleaving measure
// in scenarios whose diversity lies in scripts rather than schedules).
func (s *Sim) Note(label string) { s.record(label, label) }

// ParkedUnsafe returns the parked tasks without sorting; for observers that
// run on a task's goroutine while every other task is parked.
//
//go:norace
func (s *Sim) ParkedUnsafe() []*Task {
	raceDisable()
	defer raceEnable()
	s.mu.Lock()
	defer s.mu.Unlock()
	var out []*Task
	for i := 0; i < s.ntasks; i++ {
		if t := s.tasks[i]; t.parked && !t.done {
			out = append(out, t)
		}
	}
	return out
}
