package sched

import "math/rand/v2"

// Tape is the sequence of scheduler decisions. In generation mode it is
// extended from a PRNG; in replay mode it is read and returns 0 ("the boring
// choice") once exhausted.
type Tape struct {
	Vals []uint32
	pos  int
	rng  *rand.Rand
	// Bias: probability (in 1/256) that a generated decision is 0.
	ZeroBias uint32
}

// NewTape returns a generating tape seeded with seed.
func NewTape(seed uint64) *Tape {
	return &Tape{rng: rand.New(rand.NewPCG(seed, 0x9e3779b97f4a7c15))}
}

// ReplayTape returns a tape that replays vals.
func ReplayTape(vals []uint32) *Tape { return &Tape{Vals: vals} }

// Choose returns a value in [0,n).
func (t *Tape) Choose(n int) int {
	if n <= 1 {
		return 0
	}
	var v uint32
	if t.pos < len(t.Vals) {
		v = t.Vals[t.pos]
	} else if t.rng != nil {
		v = t.rng.Uint32()
		if t.ZeroBias > 0 && t.rng.Uint32N(256) < t.ZeroBias {
			v = 0
		}
		t.Vals = append(t.Vals, v)
	} else {
		v = 0
	}
	t.pos++
	return int(v % uint32(n))
}

// Pos returns the number of decisions consumed.
func (t *Tape) Pos() int { return t.pos }
