//go:build !race

package sched

func raceDisable() {}
func raceEnable()  {}

// RaceEnabled reports whether the binary was built with the race detector.
const RaceEnabled = false

// RaceDisable is a no-op without the race detector.
func RaceDisable() {}

// RaceEnable is a no-op without the race detector.
func RaceEnable() {}
