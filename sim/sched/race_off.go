//go:build !race

package sched

func raceDisable() {}
func raceEnable()  {}

// RaceEnabled reports whether the binary was built with the race detector.
const RaceEnabled = false
