//go:build race

package sched

import "runtime"

func raceDisable() { runtime.RaceDisable() }
func raceEnable()  { runtime.RaceEnable() }

// RaceEnabled reports whether the binary was built with the race detector.
const RaceEnabled = true

// RaceDisable hides the calling goroutine's synchronisation from the race detector.
func RaceDisable() { runtime.RaceDisable() }

// RaceEnable undoes RaceDisable.
func RaceEnable() { runtime.RaceEnable() }
