//go:build race

package sched

import "runtime"

func raceDisable() { runtime.RaceDisable() }
func raceEnable()  { runtime.RaceEnable() }

// RaceEnabled reports whether the binary was built with the race detector.
const RaceEnabled = true
