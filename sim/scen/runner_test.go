package scen

import (
	"bufio"
	"bytes"
	"encoding/json"
	"fmt"
	"os"
	"os/exec"
	"path/filepath"
	"regexp"
	"runtime"
	"sort"
	"strconv"
	"strings"
	"sync"
	"time"
)

// ScenBudget is how many runs of a scenario a check performs.
type ScenBudget struct {
	Scenario string
	Quick    int
	Thorough int
}

// CheckSpec describes one registered check.
type CheckSpec struct {
	Property    string
	Level       string
	Rule        string
	Oracle      string
	Assumptions []string
	Scen        []ScenBudget
	OwnsPanics  bool
	Race        bool
	RealStub    []string
	// Probes are the rare conditions the scenarios of this check are expected
	// to reach; those never hit are listed as unreached in the evidence.
	Probes []string
}

var commonAssumptions = []string{
	"tier A transport: SimConn reproduces nats.go v1.10.0 channel-subscription delivery (FIFO per connection, drop on full channel) and client-side subject checks; NATS server routing is a stub written from the protocol documentation",
	"goroutine interleavings are explored at the granularity of the yield points listed in DESIGN.md section 4 plus every SimConn method and harness handler yield; interleavings inside library critical sections are not split further",
	"schedules are sampled by a seeded PRNG, not enumerated: a clean batch is evidence, not proof",
}

var realStub = []string{
	"real: go-res root package, store, store/badgerstore, store/mockstore, resprot, middleware, logger (built from /repo working tree with -tags verif)",
	"real: jirenius/timerqueue v1.0.0 on the bubble's fake clock",
	"real with yield points: jirenius/taskqueue v1.1.0 (copy under sim/third_party, verbatim except that a full queue wakes all waiters instead of one - the original loses wake-ups with two blocked producers -, with yield points before enqueueing, after a wake-up from a full queue and before the worker takes the next task; its capacity in badgerstore is varied per run through a verif-tagged hook)",
	"real with three yield points: dgraph-io/badger v1.6.2 on real files under a per-run temp directory (the build step copies the module to a scratch directory and makes DB.View and DB.Update yield before the transaction starts and DB.Update between the user's function and the commit)",
	"stub: jirenius/keylock (scheduler-visible re-implementation with the same API and RW semantics)",
	"stub: NATS server (in-process routing model); tier A replaces the nats.go client by SimConn",
	"real: sync, time, goroutines inside a testing/synctest bubble (fake clock, quiescence detection); which parked goroutine proceeds is decided by the tape",
}

var checks = map[string]*CheckSpec{}

func addCheck(c *CheckSpec) { checks[c.Property] = c }

type knownFile struct {
	Findings []struct {
		Property    string `json:"property"`
		Class       string `json:"class"`
		Signature   string `json:"signature"`
		Description string `json:"description"`
	} `json:"findings"`
	Fixed []string `json:"fixed"`
}

type agg struct {
	runs           int
	steps          uint64
	simNs          int64
	wallUs         int64
	evals          int
	inconclusive   int
	probes         map[string]int
	faults         map[string]int
	sched          map[string]struct{}
	states         map[string]struct{}
	samples        []interface{}
	viol           map[string]*RunResult // first run per violation key
	violCount      map[string]int
	abortedByPanic int
	thirdParty     int
	perScenario    map[string]int
}

type chunk struct {
	scenario string
	from, n  int
}

type chunkResult struct {
	chunk   chunk
	outFile string
	stderr  string
	err     error
	exit    int
}

func buildDir() string { return filepath.Join(*fVerifDir, ".build") }

func runChunk(prop string, base uint64, ck chunk, race bool, extra ...string) chunkResult {
	dir := filepath.Join(buildDir(), "out", prop)
	os.MkdirAll(dir, 0o755)
	out := filepath.Join(dir, fmt.Sprintf("%s-%d-%d.jsonl", ck.scenario, ck.from, ck.n))
	args := []string{"-test.run", "^TestSim$", "-test.timeout", "0", "-sim.role=worker", "-sim.scenario=" + ck.scenario,
		"-sim.property=" + prop, "-sim.base=" + strconv.FormatUint(base, 10), "-sim.from=" + strconv.Itoa(ck.from), "-sim.n=" + strconv.Itoa(ck.n), "-sim.out=" + out}
	if race {
		args = append(args, "-sim.race")
	}
	args = append(args, extra...)
	cmd := exec.Command(os.Args[0], args...)
	var stderr bytes.Buffer
	cmd.Stderr = &tailWriter{buf: &stderr, max: 1 << 20}
	cmd.Stdout = nil
	cmd.Env = append(os.Environ(), "GOTRACEBACK=all")
	if race {
		cmd.Env = append(cmd.Env, "GORACE=halt_on_error=0 log_path="+filepath.Join(dir, "race-"+ck.scenario+"-"+strconv.Itoa(ck.from)))
	}
	err := cmd.Run()
	cr := chunkResult{chunk: ck, outFile: out, stderr: stderr.String(), err: err}
	if err != nil {
		if ee, ok := err.(*exec.ExitError); ok {
			cr.exit = ee.ExitCode()
		} else {
			cr.exit = -1
		}
	}
	return cr
}

// tailWriter keeps only the last max bytes plus the beginning.
type tailWriter struct {
	buf *bytes.Buffer
	max int
}

func (t *tailWriter) Write(p []byte) (int, error) {
	t.buf.Write(p)
	if t.buf.Len() > 2*t.max {
		b := t.buf.Bytes()
		keep := append([]byte(nil), b[len(b)-t.max:]...)
		t.buf.Reset()
		t.buf.Write(keep)
	}
	return len(p), nil
}

var beginRe = regexp.MustCompile(`(?m)^BEGIN (\d+) (\d+)$`)

func lastBegin(stderr string) (int, uint64, bool) {
	ms := beginRe.FindAllStringSubmatch(stderr, -1)
	if len(ms) == 0 {
		return 0, 0, false
	}
	m := ms[len(ms)-1]
	i, _ := strconv.Atoi(m[1])
	s, _ := strconv.ParseUint(m[2], 10, 64)
	return i, s, true
}

func readResults(path string, f func(*RunResult)) {
	fh, err := os.Open(path)
	if err != nil {
		return
	}
	defer fh.Close()
	sc := bufio.NewScanner(fh)
	sc.Buffer(make([]byte, 1<<20), 64<<20)
	for sc.Scan() {
		rr := &RunResult{}
		if json.Unmarshal(sc.Bytes(), rr) == nil {
			f(rr)
		}
	}
}

func panicTopFrame(stderr string) (string, string) {
	// returns (message, top go-res frame)
	msg := ""
	idx := strings.LastIndex(stderr, "\npanic: ")
	if idx < 0 {
		idx = strings.LastIndex(stderr, "fatal error: ")
		if idx < 0 {
			return "", ""
		}
	}
	rest := stderr[idx:]
	lines := strings.Split(rest, "\n")
	if len(lines) > 1 {
		msg = strings.TrimSpace(lines[1])
		if msg == "" && len(lines) > 0 {
			msg = strings.TrimSpace(lines[0])
		}
	}
	frame := ""
	// first goroutine block after the panic: the panicking goroutine
	seenGoroutine := false
	for _, l := range lines {
		if strings.HasPrefix(l, "goroutine ") {
			if seenGoroutine {
				break
			}
			seenGoroutine = true
		}
		l = strings.TrimSpace(l)
		if strings.HasPrefix(l, "github.com/jirenius/go-res") {
			if i := strings.LastIndex(l, "("); i > 0 {
				frame = l[:i]
			} else {
				frame = l
			}
			break
		}
		if strings.HasPrefix(l, "goroutine ") && frame == "" && strings.Contains(l, "[") && l != lines[0] {
			// keep scanning within the first goroutine only
		}
	}
	return msg, frame
}

func runnerMain() int {
	spec := checks[*fCheck]
	if spec == nil {
		fmt.Fprintf(os.Stderr, "unknown check %q\n", *fCheck)
		return 2
	}
	tier := *fTier
	base := *fBase
	t0 := time.Now()
	a := &agg{probes: map[string]int{}, faults: map[string]int{}, sched: map[string]struct{}{}, states: map[string]struct{}{},
		viol: map[string]*RunResult{}, violCount: map[string]int{}, perScenario: map[string]int{}}
	os.RemoveAll(filepath.Join(buildDir(), "out", spec.Property))
	var chunks []chunk
	for _, sb := range spec.Scen {
		n := sb.Quick
		if tier == "thorough" {
			n = sb.Thorough
		}
		per := 500
		if spec.Race {
			per = 100
		}
		// spread small budgets over all cores
		if want := (n + 2*runtime.NumCPU() - 1) / (2 * runtime.NumCPU()); want < per {
			per = want
			if per < 5 {
				per = 5
			}
		}
		if isolated(sb.Scenario) {
			per = 1
		}
		// aim for >= 2 chunks per core on big budgets, but small processes
		for from := 0; from < n; from += per {
			k := per
			if from+k > n {
				k = n - from
			}
			chunks = append(chunks, chunk{sb.Scenario, from, k})
		}
	}
	par := runtime.NumCPU()
	if v := os.Getenv("VERIF_JOBS"); v != "" {
		if n, err := strconv.Atoi(v); err == nil && n > 0 {
			par = n
		}
	}
	trouble := []string{}
	var mu sync.Mutex
	panicViol := map[string]*Replay{} // key -> replay
	panicDetail := map[string]string{}
	work := make(chan chunk, len(chunks)*4+16)
	var wg sync.WaitGroup
	var pending sync.WaitGroup
	for _, c := range chunks {
		pending.Add(1)
		work <- c
	}
	go func() { pending.Wait(); close(work) }()
	for w := 0; w < par; w++ {
		wg.Add(1)
		go func() {
			defer wg.Done()
			for ck := range work {
				cr := runChunk(spec.Property, base, ck, spec.Race)
				mu.Lock()
				done := 0
				var chunkRuns []*RunResult
				readResults(cr.outFile, func(rr *RunResult) {
					done++
					chunkRuns = append(chunkRuns, rr)
				})
				if spec.Race {
					tp, hr := attributeRaces(spec.Property, ck, chunkRuns)
					a.thirdParty += tp
					for _, t := range hr {
						trouble = append(trouble, t)
					}
				}
				for _, rr := range chunkRuns {
					a.add(rr)
				}
				mu.Unlock()
				os.Remove(cr.outFile)
				if cr.err != nil && spec.Race && cr.exit == 1 && strings.Contains(cr.stderr, "\nEND\n") {
					// the testing package fails a test binary in which the
					// race detector reported something; the reports were
					// attributed to their runs by the worker
					cr.err = nil
				}
				if cr.err != nil {
					idx, seed, ok := lastBegin(cr.stderr)
					msg, frame := panicTopFrame(cr.stderr)
					switch {
					case cr.exit == 3:
						mu.Lock()
						trouble = append(trouble, fmt.Sprintf("watchdog in %s run %d: %s", ck.scenario, idx, firstLines(cr.stderr[max(0, strings.Index(cr.stderr, "WATCHDOG")):], 40)))
						mu.Unlock()
					case ok && frame != "":
						// a library goroutine panicked: confirm by re-running that seed alone
						same := false
						msg2, frame2 := "", ""
						for try := 0; try < 4 && !same; try++ {
							cr2 := runChunk(spec.Property, base, chunk{ck.scenario, idx, 1}, spec.Race)
							os.Remove(cr2.outFile)
							msg2, frame2 = panicTopFrame(cr2.stderr)
							same = cr2.err != nil && frame2 == frame
						}
						// a panic raised inside go-res that killed the process
						// counts even when the replays do not die the same
						// way: the library itself has become nondeterministic
						// (for instance through a sync.Pool)
						inLib := strings.HasPrefix(frame, "github.com/jirenius/go-res")
						mu.Lock()
						if same || inLib {
							v := &Violation{Property: spec.Property, Class: "panic", Signature: frame, Detail: msg + "\n" + firstLines(cr.stderr[max(0, strings.LastIndex(cr.stderr, "\npanic: ")):], 30)}
							if !same {
								v.Detail = "(the process died in this run; four replays of the run did not die the same way)\n" + v.Detail
							}
							if !spec.OwnsPanics {
								a.abortedByPanic++
							} else if _, seen := panicViol[v.Key()]; !seen {
								panicViol[v.Key()] = &Replay{V: 1, Property: spec.Property, Scenario: ck.scenario, RunSeed: seed, Race: spec.Race, Violation: v, Toolchain: runtime.Version(), Note: "process-killing panic on a library goroutine; case and tape are regenerated from run_seed"}
								panicDetail[v.Key()] = v.Detail
							}
							a.runs++
						} else {
							trouble = append(trouble, fmt.Sprintf("worker died in %s run %d and the death did not repeat identically (%q vs %q): %s", ck.scenario, idx, frame, frame2, firstLines(msg+" "+msg2, 3)))
						}
						mu.Unlock()
						// continue after the dead run
						rest := ck.from + ck.n - (idx + 1)
						if rest > 0 {
							pending.Add(1)
							work <- chunk{ck.scenario, idx + 1, rest}
						}
					default:
						mu.Lock()
						trouble = append(trouble, fmt.Sprintf("worker for %s[%d..] failed (exit %d): %s", ck.scenario, ck.from, cr.exit, firstLines(cr.stderr, 30)))
						mu.Unlock()
					}
				}
				pending.Done()
			}
		}()
	}
	wg.Wait()

	// known findings
	var known knownFile
	if b, err := os.ReadFile(filepath.Join(*fVerifDir, "known_findings.json")); err == nil {
		if err := json.Unmarshal(b, &known); err != nil {
			trouble = append(trouble, "known_findings.json: "+err.Error())
		}
	}
	isKnown := func(v *Violation) (bool, string) {
		for _, k := range known.Findings {
			if k.Property == v.Property && k.Class == v.Class && k.Signature == v.Signature {
				return true, k.Description
			}
		}
		return false, ""
	}

	// report violations
	exit := 0
	os.MkdirAll(filepath.Join(*fVerifDir, "replays"), 0o755)
	var keys []string
	for k := range a.viol {
		keys = append(keys, k)
	}
	sort.Strings(keys)
	reported := 0
	knownSeen := map[string]bool{}
	for _, k := range keys {
		rr := a.viol[k]
		v := rr.Replay.Violation
		for _, vv := range rr.Violations {
			if vv.Key() == k {
				v = vv
			}
		}
		rp := *rr.Replay
		rp.Violation = v
		if ok, desc := isKnown(v); ok {
			if !knownSeen[k] {
				knownSeen[k] = true
				fmt.Printf("KNOWN-FINDING: property=%s class=%s signature=%q (%d runs) %s\n", v.Property, v.Class, v.Signature, a.violCount[k], desc)
			}
			continue
		}
		if reported >= 5 {
			continue
		}
		path := filepath.Join(*fVerifDir, "replays", fmt.Sprintf("%s-%s-%d.json", spec.Property, rp.Scenario, rp.RunSeed))
		b, _ := json.MarshalIndent(&rp, "", " ")
		os.WriteFile(path, b, 0o644)
		// minimise, then confirm in a fresh process
		if !spec.Race {
			sh := exec.Command(os.Args[0], "-test.run", "^TestSim$", "-test.timeout", "0", "-sim.role=shrink", "-sim.file="+path)
			sh.Run()
		}
		confirm := func() ([]byte, bool) {
			var outb []byte
			for try := 0; try < 5; try++ {
				rc := exec.Command(os.Args[0], "-test.run", "^TestSim$", "-test.timeout", "0", "-sim.role=replay", "-sim.file="+path)
				outb, _ = rc.CombinedOutput()
				if rc.ProcessState != nil && rc.ProcessState.ExitCode() == 1 && (bytes.Contains(outb, []byte("reproduced:")) || spec.Race) {
					return outb, true
				}
			}
			return outb, false
		}
		outb, ok := confirm()
		if !ok {
			// the minimised file does not reproduce (the library itself may
			// behave nondeterministically, e.g. a select with two ready
			// cases): fall back to the original run
			os.WriteFile(path, b, 0o644)
			outb, ok = confirm()
		}
		if ok {
			fmt.Printf("violation: class=%s signature=%q seen in %d runs; first at seed %d\n  %s\n", v.Class, v.Signature, a.violCount[k], rr.Seed, firstLines(v.Detail, 8))
			fmt.Printf("VIOLATION property=%s replay=%s\n", v.Property, path)
			exit = 1
			reported++
		} else if v.Class == "data-race" {
			// the detector's report of the original run stands on its own:
			// which reports appear can depend on what the runtime does (the
			// race build of sync.Pool drops objects at random, for instance)
			fmt.Printf("violation: class=%s signature=%q seen in %d runs; first at seed %d (the report did not repeat in ten replays of that run)\n  %s\n", v.Class, v.Signature, a.violCount[k], rr.Seed, firstLines(v.Detail, 8))
			fmt.Printf("VIOLATION property=%s replay=%s\n", v.Property, path)
			exit = 1
			reported++
		} else {
			trouble = append(trouble, fmt.Sprintf("violation %s did not reproduce from its replay file %s: %s", k, path, firstLines(string(outb), 10)))
		}
	}
	var pkeys []string
	for k := range panicViol {
		pkeys = append(pkeys, k)
	}
	sort.Strings(pkeys)
	for _, k := range pkeys {
		rp := panicViol[k]
		if ok, desc := isKnown(rp.Violation); ok {
			fmt.Printf("KNOWN-FINDING: property=%s class=%s signature=%q %s\n", rp.Violation.Property, rp.Violation.Class, rp.Violation.Signature, desc)
			continue
		}
		path := filepath.Join(*fVerifDir, "replays", fmt.Sprintf("%s-%s-%d.json", spec.Property, rp.Scenario, rp.RunSeed))
		b, _ := json.MarshalIndent(rp, "", " ")
		os.WriteFile(path, b, 0o644)
		fmt.Printf("violation: class=panic signature=%q\n  %s\n", rp.Violation.Signature, firstLines(rp.Violation.Detail, 12))
		fmt.Printf("VIOLATION property=%s replay=%s\n", rp.Violation.Property, path)
		exit = 1
	}

	wall := time.Since(t0).Seconds()
	// evidence
	ev := map[string]interface{}{
		"property_id": spec.Property,
		"tier":        tier,
		"seed":        base,
		"level":       spec.Level,
		"wall_s":      wall,
		"violations":  len(a.viol) + len(panicViol),
		"assumptions": append(append([]string{}, commonAssumptions...), spec.Assumptions...),
	}
	unreached := []string{}
	for _, pr := range spec.Probes {
		if a.probes[pr] == 0 {
			unreached = append(unreached, pr)
		}
	}
	cov := map[string]interface{}{
		"evaluations":                            a.evals + a.runs,
		"distinct_nontrivial":                    len(a.sched),
		"rule":                                   spec.Rule + " Cases are simulated runs: configuration, actor scripts and the scheduler's choice tape are all drawn from one PRNG seeded by (VERIF_SEED, scenario, run index). evaluations = runs + oracle evaluations inside them; distinct_nontrivial = number of distinct hashes of the (task role, yield point) decision sequence, i.e. distinct interleavings actually executed.",
		"oracle":                                 spec.Oracle,
		"samples":                                a.samples,
		"runs":                                   a.runs,
		"runs_per_scenario":                      a.perScenario,
		"runs_per_hour":                          int(float64(a.runs) / wall * 3600),
		"scheduler_steps":                        a.steps,
		"simulated_seconds":                      float64(a.simNs) / 1e9,
		"distinct_abstract_states":               len(a.states),
		"faults_fired":                           a.faults,
		"probes":                                 a.probes,
		"unreached_probes":                       unreached,
		"aborted_by_panic":                       a.abortedByPanic,
		"third_party_race_reports":               a.thirdParty,
		"inconclusive":                           a.inconclusive,
		"real_vs_stub":                           realStub,
		"toolchain":                              runtime.Version(),
		"lock_granularity_yield_points_inserted": os.Getenv("VERIF_AUTOYIELD_POINTS"),
		"known_findings_reobserved":              len(knownSeen),
	}
	if len(a.samples) == 0 {
		cov["samples"] = []interface{}{"no run completed"}
	}
	ev["coverage"] = cov
	os.MkdirAll(filepath.Join(*fVerifDir, "evidence"), 0o755)
	eb, _ := json.MarshalIndent(ev, "", " ")
	if len(trouble) == 0 || exit == 1 {
		os.WriteFile(filepath.Join(*fVerifDir, "evidence", spec.Property+".json"), eb, 0o644)
	}
	fmt.Printf("check %s tier=%s seed=%d: %d runs, %d steps, %d distinct schedules, %d violations classes, %.1fs\n", spec.Property, tier, base, a.runs, a.steps, len(a.sched), len(a.viol)+len(panicViol), wall)
	if len(trouble) > 0 {
		for _, tr := range trouble {
			fmt.Fprintln(os.Stderr, "TROUBLE:", tr)
		}
		if exit == 0 {
			return 2
		}
	}
	return exit
}

func (a *agg) add(rr *RunResult) {
	a.runs++
	a.perScenario[rr.Scenario]++
	a.steps += rr.Steps
	a.simNs += rr.SimNs
	a.wallUs += rr.WallUs
	a.evals += rr.Evals
	a.inconclusive += rr.Inconclusive
	for k, v := range rr.Probes {
		a.probes[k] += v
	}
	for k, v := range rr.Faults {
		a.faults[k] += v
	}
	a.sched[rr.SchedHash] = struct{}{}
	for _, s := range rr.States {
		a.states[s] = struct{}{}
	}
	if rr.Sample != nil && len(a.samples) < 6 {
		a.samples = append(a.samples, map[string]interface{}{"run_seed": rr.Seed, "steps": rr.Steps, "faults": rr.Faults, "case": rr.Sample})
	}
	for _, v := range rr.Violations {
		k := v.Key()
		a.violCount[k]++
		if prev, ok := a.viol[k]; rr.Replay != nil && (!ok || rr.Scenario < prev.Scenario || (rr.Scenario == prev.Scenario && rr.Index < prev.Index)) {
			// keep the violating run with the lowest index, so that the
			// reported replay does not depend on worker completion order
			a.viol[k] = rr
		}
	}
}

// selftestMain: determinism self-test. For each scenario, run seeds in
// separate processes at GOMAXPROCS 1, 4 and 16 and compare full trace hashes.
func selftestMain() int {
	names := []string{}
	for n := range scenarios {
		names = append(names, n)
	}
	sort.Strings(names)
	if *fScenario != "" && *fScenario != "core" || os.Getenv("SELFTEST_ONLY") != "" {
		if s := os.Getenv("SELFTEST_ONLY"); s != "" {
			names = strings.Split(s, ",")
		}
	}
	n := *fN
	if n <= 1 {
		n = 200
	}
	bad := 0
	for _, name := range names {
		if isolated(name) {
			fmt.Printf("selftest %s: skipped (one run per process; nats.go's internal goroutines are quiescence-controlled only, its oracles are settled-state predicates)\n", name)
			continue
		}
		hashes := map[int][]string{}
		var wg sync.WaitGroup
		var mu sync.Mutex
		for _, procs := range []int{1, 4, 16} {
			wg.Add(1)
			go func(procs int) {
				defer wg.Done()
				dir := filepath.Join(buildDir(), "out", "selftest")
				os.MkdirAll(dir, 0o755)
				out := filepath.Join(dir, fmt.Sprintf("%s-%d.jsonl", name, procs))
				cmd := exec.Command(os.Args[0], "-test.run", "^TestSim$", "-test.timeout", "0", "-sim.role=worker", "-sim.scenario="+name, "-sim.hashonly",
					"-sim.base="+strconv.FormatUint(*fBase, 10), "-sim.from=0", "-sim.n="+strconv.Itoa(n), "-sim.out="+out)
				cmd.Env = append(os.Environ(), "GOMAXPROCS="+strconv.Itoa(procs))
				var stderr bytes.Buffer
				cmd.Stderr = &tailWriter{buf: &stderr, max: 1 << 16}
				err := cmd.Run()
				var hs []string
				readResults(out, func(rr *RunResult) { hs = append(hs, fmt.Sprintf("%d:%s:%d", rr.Index, rr.Hash, rr.Steps)) })
				os.Remove(out)
				if err != nil {
					idx, _, _ := lastBegin(stderr.String())
					hs = append(hs, fmt.Sprintf("DIED at %d", idx))
				}
				mu.Lock()
				hashes[procs] = hs
				mu.Unlock()
			}(procs)
		}
		wg.Wait()
		ref := hashes[1]
		ok := true
		for _, procs := range []int{1, 4, 16} {
			// a worker that died is never a pass, however alike the deaths
			if h := hashes[procs]; len(h) > 0 && strings.HasPrefix(h[len(h)-1], "DIED") {
				fmt.Printf("selftest %s: worker process at GOMAXPROCS=%d %s\n", name, procs, h[len(h)-1])
				ok = false
			}
		}
		for _, procs := range []int{4, 16} {
			h := hashes[procs]
			for i := 0; i < len(ref) || i < len(h); i++ {
				var x, y string
				if i < len(ref) {
					x = ref[i]
				}
				if i < len(h) {
					y = h[i]
				}
				if x != y {
					fmt.Printf("NONDETERMINISM scenario=%s run=%d GOMAXPROCS=1:%s GOMAXPROCS=%d:%s\n", name, i, x, procs, y)
					explainDivergence(name, i, procs)
					ok = false
					break
				}
			}
		}
		if os.Getenv("SELFTEST_PRINT") == name {
			st, _ := os.Stat("/dev/shm")
			fmt.Printf("selftest %s env: NumCPU=%d shm=%v TMPDIR=%q hashes=%s\n", name, runtime.NumCPU(), st != nil && st.IsDir(), os.Getenv("TMPDIR"), strings.Join(ref, " "))
		}
		if ok {
			fmt.Printf("selftest %s: %d runs identical at GOMAXPROCS 1/4/16\n", name, len(ref))
		} else {
			bad++
		}
	}
	if bad > 0 {
		return 2
	}
	return 0
}

var raceFrameRe = regexp.MustCompile(`(?m)^  (\S+)\(\)$`)

// a frame with the source file of its position line
var raceFrameFileRe = regexp.MustCompile(`(?m)^  (\S+)\(\)\n\s+(\S+):\d+`)

// attributeRaces reads the race detector's log of a chunk, derives a
// signature (pair of top go-res frames) for each report and attaches the
// reports to the runs in which the detector's error count went up. It
// returns the number of reports without any go-res frame (third party) and
// descriptions of reports whose both stacks lie in harness code.
func attributeRaces(prop string, ck chunk, runs []*RunResult) (int, []string) {
	dir := filepath.Join(buildDir(), "out", prop)
	matches, _ := filepath.Glob(filepath.Join(dir, "race-"+ck.scenario+"-"+strconv.Itoa(ck.from)+".*"))
	var text string
	for _, m := range matches {
		b, _ := os.ReadFile(m)
		text += string(b)
		os.Remove(m)
	}
	blocks := strings.Split(text, "WARNING: DATA RACE")
	type rep struct {
		sig, text string
		kind      int // 0 go-res, 1 third party, 2 harness
	}
	var reps []rep
	for _, b := range blocks[1:] {
		if i := strings.Index(b, "=================="); i >= 0 {
			b = b[:i]
		}
		parts := strings.Split(b, "\n\n")
		var sig []string
		gores, third := false, false
		innerHarness := 0
		for _, p := range parts {
			if len(sig) >= 2 {
				break
			}
			if !strings.Contains(p, " by goroutine ") && !strings.Contains(p, " by main goroutine") {
				continue
			}
			fs := raceFrameRe.FindAllStringSubmatch(p, -1)
			// the function that made the access (innermost frame outside
			// the runtime): if it is the simulator's own on both sides, the
			// report is about simulator state, whatever called it
			// (by source file: a closure of the library inlined into a
			// simulator function carries the simulator's name)
			for _, f := range raceFrameFileRe.FindAllStringSubmatch(p, -1) {
				if strings.HasPrefix(f[1], "runtime.") || strings.HasPrefix(f[1], "internal/") {
					continue
				}
				// (touch is the one instrumented function of the race
				// scenario: handlers write their group's scratch memory
				// through it, and a race there is a race of the library's
				// group serialisation)
				if strings.Contains(f[2], "/verif/sim/") && !strings.Contains(f[2], "/third_party/") && !strings.HasSuffix(f[1], ".touch") {
					innerHarness++
				}
				break
			}
			top := "?"
			for _, f := range fs {
				if strings.Contains(f[1], "github.com/jirenius/go-res") {
					top = f[1]
					gores = true
					break
				}
			}
			if top == "?" {
				for _, f := range fs {
					if !strings.HasPrefix(f[1], "verif/sim") && strings.Contains(f[1], ".") && (strings.Contains(f[1], "github.com/") || strings.Contains(f[1], "go.etcd.io")) {
						top = f[1]
						third = true
						break
					}
				}
			}
			if top == "?" && len(fs) > 0 {
				top = fs[0][1]
			}
			sig = append(sig, top)
		}
		sort.Strings(sig)
		r := rep{sig: strings.Join(sig, " <-> "), text: "WARNING: DATA RACE" + firstLines(b, 70)}
		switch {
		case innerHarness >= 2:
			r.kind = 2
		case gores:
			r.kind = 0
		case third:
			r.kind = 1
		default:
			r.kind = 2
		}
		reps = append(reps, r)
	}
	third := 0
	var harness []string
	ri := 0
	for _, rr := range runs {
		n := rr.Races
		var keep []*Violation
		for _, v := range rr.Violations {
			if v.Class != "data-race" {
				keep = append(keep, v)
			}
		}
		rr.Violations = keep
		for k := 0; k < n && ri < len(reps); k, ri = k+1, ri+1 {
			r := reps[ri]
			switch r.kind {
			case 1:
				third++
			case 2:
				harness = append(harness, "race report with both stacks outside go-res (simulator bug) in "+ck.scenario+" run "+strconv.Itoa(rr.Index)+": "+r.sig+"\n"+firstLines(r.text, 40))
			default:
				rr.Violations = append(rr.Violations, &Violation{Property: "C16", Class: "data-race", Signature: r.sig, Detail: r.text})
			}
		}
		if len(rr.Violations) == 0 {
			rr.Replay = nil
		} else if rr.Replay != nil {
			rr.Replay.Violation = rr.Violations[0]
		}
	}
	return third, harness
}

// isolated reports whether every run of the scenario needs a process of its
// own. nats.go keeps a global pool of timers; a timer created in one synctest
// bubble must not be used in another.
func isolated(scenario string) bool { return scenario == "tierb" }

// explainDivergence re-runs one index verbosely at GOMAXPROCS 1 and procs and
// prints where the two traces part (diagnostics for the self-test only).
func explainDivergence(name string, index, procs int) {
	trace := func(p int) []string {
		cmd := exec.Command(os.Args[0], "-test.run", "^TestSim$", "-test.timeout", "0", "-sim.role=worker", "-sim.scenario="+name, "-sim.verbose",
			"-sim.base="+strconv.FormatUint(*fBase, 10), "-sim.from=0", "-sim.n="+strconv.Itoa(index+1), "-sim.out="+os.DevNull)
		cmd.Env = append(os.Environ(), "GOMAXPROCS="+strconv.Itoa(p))
		var stderr bytes.Buffer
		cmd.Stderr = &stderr
		cmd.Run()
		var out []string
		for _, l := range strings.Split(stderr.String(), "\n") {
			if strings.HasPrefix(l, "CASE ") {
				out = out[:0] // keep the last run only
			}
			if strings.HasPrefix(l, "  ") || strings.HasPrefix(l, "CASE ") {
				out = append(out, l)
			}
		}
		return out
	}
	a, b := trace(1), trace(procs)
	for i := 0; i < len(a) || i < len(b); i++ {
		var x, y string
		if i < len(a) {
			x = a[i]
		}
		if i < len(b) {
			y = b[i]
		}
		if x == y {
			continue
		}
		from := i - 8
		if from < 0 {
			from = 0
		}
		if len(a) > 0 && strings.HasPrefix(a[0], "CASE ") {
			fmt.Printf("  %s\n", a[0])
		}
		for j := from; j < i; j++ {
			fmt.Printf("  both      %s\n", a[j])
		}
		for j := i; j < i+6; j++ {
			if j < len(a) {
				fmt.Printf("  procs=1   %s\n", a[j])
			}
		}
		for j := i; j < i+6; j++ {
			if j < len(b) {
				fmt.Printf("  procs=%-3d %s\n", procs, b[j])
			}
		}
		return
	}
	fmt.Printf("  (re-run of indexes 0..%d: index %d is identical at both settings, %d trace lines)\n", index, index, len(a))
	for _, l := range a {
		fmt.Printf("  trace     %s\n", l)
	}
}
