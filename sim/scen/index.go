package scen

import (
	"bytes"
	"encoding/json"
	"errors"
	"fmt"
	"github.com/dgraph-io/badger"
	"math/rand/v2"
	"net/url"
	"os"
	"sort"
	"strconv"
	"strings"
	"sync"

	"github.com/jirenius/go-res/store"
	"github.com/jirenius/go-res/store/badgerstore"
	"github.com/jirenius/keylock"
	"github.com/jirenius/taskqueue"

	"verif/sim/sched"
)

// idxRec is the stored value type of the index scenarios.
type idxRec struct {
	K string `json:"k,omitempty"` // index "k" key; "" = not indexed (and omitted from the stored JSON)
	N string `json:"n,omitempty"` // index "n" key
	V int    `json:"v"`
}

// IdxMut is one store mutation.
type IdxMut struct {
	Kind string `json:"k"` // create | update | delete | init (index scenario: Store.Init with the case's seeds)
	ID   string `json:"id"`
	K    string `json:"key,omitempty"`
	N    string `json:"n,omitempty"`
	V    int    `json:"v,omitempty"`
	Cont bool   `json:"cont,omitempty"` // same write transaction as the previous mutation (same id)
	// CommitErr: the commit of this mutation's value is refused (disk error)
	CommitErr bool `json:"commit_err,omitempty"`
}

// IdxQuery is one generated query.
type IdxQuery struct {
	Index   string `json:"index"`
	Prefix  string `json:"prefix"`
	Filter  string `json:"filter,omitempty"` // "", "hasb", "evenlen"
	Offset  int    `json:"offset"`
	Limit   int    `json:"limit"`
	Reverse bool   `json:"reverse,omitempty"`
}

// IdxRound is one query round.
type IdxRound struct {
	After      int        `json:"after"`       // scheduler decisions before the round
	HoldWorker bool       `json:"hold_worker"` // keep the index worker parked while mutators are driven to a transaction boundary
	Queries    []IdxQuery `json:"queries"`
	// Rebuild: RebuildIndexes is called at the start of the round, while
	// the index worker (possibly with index updates still queued) is kept
	// parked and no mutator is inside a transaction
	Rebuild bool `json:"rebuild,omitempty"`
}

// IdxCase is a case of the index scenarios.
type IdxCase struct {
	Prefix   string     `json:"prefix"`
	Mutators [][]IdxMut `json:"mutators"`
	Rounds   []IdxRound `json:"rounds"`
	Optional []string   `json:"optional"`
	SubQ     []IdxQuery `json:"subq"`              // queries evaluated inside query-change callbacks (C14)
	TQCap    int        `json:"tq_cap,omitempty"`  // capacity of the index task queue (0 = the library's 256)
	Flushes  int        `json:"flushes,omitempty"` // Flush calls of a background task
	// Seeds: what an "init" mutation hands to Store.Init; only the first
	// Init that goes through writes them, and only under ids that hold
	// nothing yet
	Seeds []IdxMut `json:"seeds,omitempty"`
}

// IndexScenario: index queries equal the reference scan once Flush returned
// (C13); query-change callbacks (C14 store layer).
type IndexScenario struct{}

func (IndexScenario) Name() string { return "index" }

var idxKeys = []string{"a", "ab", "abc", "b", "ba", "a:b", "", "", "B", "a b", "aÿ", "aÿÿ", "bÿ"}

// (p1 and ep begin with characters of the store prefix "pre.")
var idxIDs = []string{"1", "2", "33", "4.4", "a", "ab", "p1", "ep"}

func genIdxQuery(r *rand.Rand) IdxQuery {
	q := IdxQuery{Index: pick(r, "k", "k", "n")}
	q.Prefix = pick(r, "", "", "a", "ab", "abc", "abcd", "b", "a\x00", "a\x001", "\x00", "a:", "zz", "B", "a ", "aÿ", "ÿ")
	q.Filter = pick(r, "", "", "hasb", "evenlen")
	q.Offset = pick(r, 0, 0, 1, 2, 5)
	q.Limit = pick(r, -1, -1, 0, 1, 2, 3, 10)
	q.Reverse = chance(r, 35)
	return q
}

func (IndexScenario) GenCase(r *rand.Rand, prop string) interface{} {
	c := &IdxCase{Prefix: pick(r, "", "pre", "pre")}
	for _, p := range append(append([]string{}, storePoints...), "tq.do", "tq.next", "updateIndex.afterCommit", "rebuild.afterDrop") {
		if chance(r, 60) {
			c.Optional = append(c.Optional, p)
		}
	}
	v := 0
	for mi, nm := 0, 1+r.IntN(3); mi < nm; mi++ {
		var muts []IdxMut
		for i, n := 0, 2+r.IntN(6); i < n; i++ {
			v++
			m := IdxMut{Kind: pick(r, "create", "create", "update", "update", "delete"), ID: pick(r, idxIDs...), K: pick(r, idxKeys...), N: pick(r, "x", "y", "xy", "", ""), V: v}
			if len(muts) > 0 && muts[len(muts)-1].Kind != "init" && chance(r, 25) {
				// several mutations inside one write transaction
				m.ID, m.Cont = muts[len(muts)-1].ID, true
			}
			m.CommitErr = chance(r, 6)
			if chance(r, 7) {
				m = IdxMut{Kind: "init", ID: m.ID}
			}
			muts = append(muts, m)
		}
		c.Mutators = append(c.Mutators, muts)
	}
	for ri, nr := 0, 1+r.IntN(3); ri < nr; ri++ {
		rd := IdxRound{After: r.IntN(40), HoldWorker: chance(r, 60), Rebuild: chance(r, 12)}
		for i, n := 0, 1+r.IntN(4); i < n; i++ {
			rd.Queries = append(rd.Queries, genIdxQuery(r))
		}
		c.Rounds = append(c.Rounds, rd)
	}
	for i := 0; i < 3; i++ {
		c.SubQ = append(c.SubQ, genIdxQuery(r))
	}
	c.TQCap = pick(r, 0, 0, 1, 1, 2, 3)
	c.Flushes = pick(r, 0, 0, 1, 2, 4)
	for i, n := 0, 1+r.IntN(3); i < n; i++ {
		c.Seeds = append(c.Seeds, IdxMut{ID: idxIDs[(i*2+r.IntN(2))%len(idxIDs)], K: pick(r, idxKeys...), N: pick(r, "x", "y", ""), V: 500 + i})
	}
	return c
}

func (IndexScenario) DecodeCase(raw json.RawMessage) (interface{}, error) {
	c := &IdxCase{}
	err := json.Unmarshal(raw, c)
	return c, err
}

func (IndexScenario) Shrinks(ci interface{}) []interface{} {
	c := ci.(*IdxCase)
	clone := func() *IdxCase {
		b, _ := json.Marshal(c)
		n := &IdxCase{}
		json.Unmarshal(b, n)
		return n
	}
	var out []interface{}
	for mi := range c.Mutators {
		if len(c.Mutators) > 1 {
			n := clone()
			n.Mutators = append(n.Mutators[:mi:mi], n.Mutators[mi+1:]...)
			out = append(out, n)
		}
		for i := range c.Mutators[mi] {
			n := clone()
			l := n.Mutators[mi]
			n.Mutators[mi] = append(l[:i:i], l[i+1:]...)
			out = append(out, n)
		}
	}
	for ri := range c.Rounds {
		if len(c.Rounds) > 1 {
			n := clone()
			n.Rounds = append(n.Rounds[:ri:ri], n.Rounds[ri+1:]...)
			out = append(out, n)
		}
		for i := range c.Rounds[ri].Queries {
			if len(c.Rounds[ri].Queries) > 1 {
				n := clone()
				l := n.Rounds[ri].Queries
				n.Rounds[ri].Queries = append(l[:i:i], l[i+1:]...)
				out = append(out, n)
			}
		}
	}
	return out
}

func (q IdxQuery) values() url.Values {
	return url.Values{"idx": {q.Index}, "prefix": {string(rawKey(q.Prefix))}, "filter": {q.Filter}, "offset": {strconv.Itoa(q.Offset)}, "limit": {strconv.Itoa(q.Limit)}, "reverse": {strconv.FormatBool(q.Reverse)}}
}

func idxFilter(name string) func([]byte) bool {
	switch name {
	case "hasb":
		return func(k []byte) bool { return bytes.IndexByte(k, 'b') >= 0 }
	case "evenlen":
		return func(k []byte) bool { return len(k)%2 == 0 }
	}
	return nil
}

// rawKey turns the key or prefix of a case into the bytes it stands for: the
// letter ÿ is written for the byte 0xFF, which no JSON string can hold.
func rawKey(s string) []byte {
	return []byte(strings.ReplaceAll(s, "ÿ", "\xff"))
}

func idxKeyOf(index string, v *idxRec) []byte {
	if v == nil {
		return nil
	}
	if index == "k" {
		if v.K == "" {
			return nil
		}
		return rawKey(v.K)
	}
	return rawKey(v.N)
}

func newIdxQueryStore(st *badgerstore.Store) *badgerstore.QueryStore {
	// the index queries are kept and handed out again for the same query
	// (a table of named views): a fetch must not use up the query it is given
	var mu sync.Mutex
	views := map[string]*badgerstore.IndexQuery{}
	qs := badgerstore.NewQueryStore(st, func(qs *badgerstore.QueryStore, q url.Values) (*badgerstore.IndexQuery, error) {
		mu.Lock()
		defer mu.Unlock()
		key := q.Encode()
		if iq := views[key]; iq != nil {
			return iq, nil
		}
		off, _ := strconv.Atoi(q.Get("offset"))
		lim, _ := strconv.Atoi(q.Get("limit"))
		iq := &badgerstore.IndexQuery{Index: qs.Index(q.Get("idx")), KeyPrefix: []byte(q.Get("prefix")), FilterKeys: idxFilter(q.Get("filter")),
			Offset: off, Limit: lim, Reverse: q.Get("reverse") == "true"}
		views[key] = iq
		return iq, nil
	})
	qs.AddIndex(badgerstore.Index{Name: "k", Key: func(v interface{}) []byte {
		r := v.(idxRec)
		return idxKeyOf("k", &r)
	}})
	qs.AddIndex(badgerstore.Index{Name: "n", Key: func(v interface{}) []byte {
		r := v.(idxRec)
		return idxKeyOf("n", &r)
	}})
	return qs
}

// refQuery is the reference: ids of the values whose key has the prefix and
// passes the filter, sorted bytewise by (key, id), reversed if asked, then
// cut by offset and limit.
func refQuery(state map[string]*idxRec, q IdxQuery) []string {
	type ent struct{ key, id string }
	var es []ent
	f := idxFilter(q.Filter)
	for id, v := range state {
		k := idxKeyOf(q.Index, v)
		if k == nil {
			continue
		}
		if !bytes.HasPrefix(k, rawKey(q.Prefix)) {
			continue
		}
		if f != nil && !f(k) {
			continue
		}
		es = append(es, ent{string(k), id})
	}
	sort.Slice(es, func(i, j int) bool {
		if es[i].key != es[j].key {
			return es[i].key < es[j].key
		}
		return es[i].id < es[j].id
	})
	if q.Reverse {
		for i, j := 0, len(es)-1; i < j; i, j = i+1, j-1 {
			es[i], es[j] = es[j], es[i]
		}
	}
	var out []string
	if q.Limit == 0 {
		return out
	}
	for i, e := range es {
		if i < q.Offset {
			continue
		}
		out = append(out, e.id)
		if q.Limit > 0 && len(out) >= q.Limit {
			break
		}
	}
	return out
}

type qcRec struct {
	Seq    uint64
	ID     string
	Before *idxRec
	After  *idxRec
}

type idxRun struct {
	c        *IdxCase
	sim      *sched.Sim
	h        *Hist
	st       *badgerstore.Store
	qs       *badgerstore.QueryStore
	model    map[string]*idxRec // values by id, per acknowledged mutation
	idxModel map[string]*idxRec // values by id, per processed index update
	muts     []mutRec
	qcs      []qcRec
	evals    int
	rebuilt  bool // RebuildIndexes has run (guarded by h.mu)
}

type mutRec struct {
	Seq     uint64
	ID      string
	Before  *idxRec
	After   *idxRec
	Changed bool // some index key changed
}

func recOf(v interface{}) *idxRec {
	if v == nil {
		return nil
	}
	r := v.(idxRec)
	return &r
}

func keyChanged(b, a *idxRec) bool {
	for _, idx := range []string{"k", "n"} {
		bk, ak := idxKeyOf(idx, b), idxKeyOf(idx, a)
		if (bk == nil) != (ak == nil) || !bytes.Equal(bk, ak) {
			return true
		}
	}
	return false
}

func (IndexScenario) Execute(sim *sched.Sim, ci interface{}, prop string, race bool) *Outcome {
	c := ci.(*IdxCase)
	h := NewHist(sim)
	ir := &idxRun{c: c, sim: sim, h: h, model: map[string]*idxRec{}, idxModel: map[string]*idxRec{}}
	sim.Optional = map[string]bool{}
	for _, p := range c.Optional {
		sim.Optional[p] = true
	}
	sim.RoleOf = roleOf
	useCanon(sim)
	dir := tempDBDir()
	defer os.RemoveAll(dir)
	db := openBadger(dir)
	defer db.Close()
	ir.st = badgerstore.NewStore(db).SetPrefix(c.Prefix).SetType(idxRec{})
	badgerstore.VerifHook = sim.Yield
	badger.VerifHook = sim.Yield
	keylock.Hook = sim.Yield
	taskqueue.Hook = sim.Yield
	defer func() { badgerstore.VerifHook = nil; badger.VerifHook = nil; keylock.Hook = nil; taskqueue.Hook = nil }()
	// harness's own change log, registered before the query store's handler
	// so that a mutation is recorded before its index task can run
	ir.st.OnChange(func(id string, before, after interface{}) {
		b, a := recOf(before), recOf(after)
		h.mu.Lock()
		// the value before is the harness's own record, not the callback's
		if tb := ir.model[id]; !sameRec(tb, b) {
			h.Viol = append(h.Viol, &Violation{Property: "C14", Class: "change-before-value", Signature: "", Step: sim.Step(),
				Detail: fmt.Sprintf("change callback for id %q reports before=%+v, the value stored by the previous successful mutation is %+v (after=%+v)", id, b, tb, a)})
			b = tb
		}
		ir.muts = append(ir.muts, mutRec{Seq: sim.Seq(), ID: id, Before: b, After: a, Changed: keyChanged(b, a)})
		if a == nil {
			delete(ir.model, id)
		} else {
			ir.model[id] = a
		}
		h.mu.Unlock()
	})
	badgerstore.VerifTaskCapacity = c.TQCap
	ir.qs = newIdxQueryStore(ir.st)
	badgerstore.VerifTaskCapacity = 0
	ir.qs.OnQueryChange(func(qc store.QueryChange) { ir.onQueryChange(qc) })

	// injected disk errors: the commit of a flagged mutation is refused; the
	// mutation then must leave no trace (no change callback, no index update)
	failCommit := make([]bool, len(c.Mutators))
	commitErrs := 0
	badger.VerifCommitFault = func() error {
		if t := sim.Current(); t != nil && strings.HasPrefix(t.Name, "mut") {
			if mi, err := strconv.Atoi(t.Name[3:]); err == nil && mi >= 1 && mi <= len(failCommit) && failCommit[mi-1] {
				failCommit[mi-1] = false
				commitErrs++
				return errors.New("simulated disk error at commit")
			}
		}
		return nil
	}
	defer func() { badger.VerifCommitFault = nil }()
	var muts []*sched.Task
	for mi := range c.Mutators {
		mi := mi
		muts = append(muts, sim.Go("mut"+strconv.Itoa(mi+1), func() {
			ms := c.Mutators[mi]
			for i := 0; i < len(ms); {
				sim.Yield("mut.op", strconv.Itoa(i))
				if ms[i].Kind == "init" {
					// (an Init refused with a transaction conflict, because
					// another mutator created a seed id meanwhile, has done
					// nothing)
					sim.Probe("index.init")
					ir.st.Init(func(add func(id string, v interface{})) error {
						for _, sd := range c.Seeds {
							add(sd.ID, idxRec{K: sd.K, N: sd.N, V: sd.V})
						}
						return nil
					})
					i++
					continue
				}
				wt := ir.st.Write(ms[i].ID)
				for first := true; i < len(ms) && (first || (ms[i].Cont && ms[i].ID == ms[i-1].ID)); i++ {
					m := ms[i]
					if !first {
						sim.Yield("mut.intxn", m.ID)
					}
					first = false
					failCommit[mi] = m.CommitErr
					switch m.Kind {
					case "create":
						wt.Create(idxRec{K: m.K, N: m.N, V: m.V})
					case "update":
						wt.Update(idxRec{K: m.K, N: m.N, V: m.V})
					case "delete":
						wt.Delete()
					}
					failCommit[mi] = false
				}
				wt.Close()
			}
		}))
	}
	// a second caller of Flush, at times of the scheduler's choosing: a
	// Flush only vouches for the writes that were made before it was called
	if c.Flushes > 0 {
		n := c.Flushes
		sim.Go("flusher", func() {
			for i := 0; i < n; i++ {
				sim.Yield("query.next", "flusher")
				ir.qs.Flush()
			}
		})
	}
	isMut := func(t *sched.Task) bool { return strings.HasPrefix(t.Name, "mut") }
	frozen := func(t *sched.Task) bool { return t.IsDone() || (t.IsParked() && t.Point == "mut.op") }
	allFrozen := func() bool {
		for _, t := range muts {
			if !frozen(t) {
				return false
			}
		}
		return true
	}
	rebuilds := 0
	queryRound := func(rd IdxRound, ri int) {
		// drive the mutators to a transaction boundary
		for i := 0; !allFrozen(); i++ {
			stepBound(i, 500000, "index: mutators to a transaction boundary")
			ok := sim.Decide(func(t *sched.Task) bool {
				if isMut(t) {
					return t.Point != "mut.op"
				}
				if rd.HoldWorker && t.Role == "tqworker" {
					return false
				}
				return true
			})
			if !ok {
				// only held workers remain: let them go
				if !sim.Decide(func(t *sched.Task) bool { return !(isMut(t) && t.Point == "mut.op") }) {
					break
				}
			}
		}
		if !allFrozen() {
			h.Violate("C13", "mutators-stuck", "", "mutators did not reach a transaction boundary: "+describeParked(sim))
			return
		}
		if rd.Rebuild {
			// the indexes are rebuilt from the stored values while index
			// updates of earlier mutations may still be queued; those then
			// run against the rebuilt index
			var rerr error
			rt := sim.Go("rebuild"+strconv.Itoa(ri+1), func() {
				rerr = ir.qs.RebuildIndexes()
				sim.Yield("call.return", "rebuild")
			})
			for i := 0; !rt.IsDone(); i++ {
				stepBound(i, 500000, "index: rebuild")
				if !sim.Decide(func(t *sched.Task) bool { return !isMut(t) && t.Role != "tqworker" }) {
					break
				}
			}
			rebuilds++
			h.mu.Lock()
			ir.rebuilt = true
			h.mu.Unlock()
			if !rt.IsDone() {
				h.Violate("C13", "rebuild-hang", "", "RebuildIndexes did not return while the index worker was parked: "+describeParked(sim))
				return
			}
			if rerr != nil {
				h.Violate("C13", "rebuild-error", "", fmt.Sprintf("RebuildIndexes (no transaction open, index worker parked) failed: %v", rerr))
			}
		}
		// expected: exact, because the mutators stay frozen during the round
		h.mu.Lock()
		state := map[string]*idxRec{}
		for k, v := range ir.model {
			state[k] = v
		}
		h.mu.Unlock()
		var results [][]string
		var errs []error
		qt := sim.Go("query"+strconv.Itoa(ri+1), func() {
			sim.Yield("query.start", "")
			ir.qs.Flush()
			sim.Yield("call.return", "flush")
			for _, q := range rd.Queries {
				res, err := ir.qs.Query(q.values())
				ids, _ := res.([]string)
				results = append(results, ids)
				errs = append(errs, err)
				sim.Yield("query.next", "")
			}
		})
		pendingAtFlush := 0
		for _, t := range sim.Parked() {
			if t.Role == "tqworker" {
				pendingAtFlush++
			}
		}
		if pendingAtFlush > 0 {
			sim.Probe("Flush called while an index task is parked")
		}
		for i := 0; !qt.IsDone(); i++ {
			stepBound(i, 500000, "index: query task")
			if !sim.Decide(func(t *sched.Task) bool { return !isMut(t) }) {
				break
			}
		}
		if !qt.IsDone() {
			h.Violate("C13", "flush-hang", "", "Flush/Query did not return: "+describeParked(sim))
			return
		}
		for i, q := range rd.Queries {
			ir.evals++
			want := refQuery(state, q)
			if errs[i] != nil {
				h.Violate("C13", "query-error", "", fmt.Sprintf("query %+v failed: %v", q, errs[i]))
				continue
			}
			if strings.Join(results[i], ",") != strings.Join(want, ",") {
				cls := "query-mismatch"
				sig := ""
				if q.Reverse {
					sig = "reverse"
				}
				h.Violate("C13", cls, sig, fmt.Sprintf("after Flush, query %+v returned %q, reference scan of the stored values gives %q (store: %s)", q, results[i], want, describeState(state)))
			}
		}
	}
	steps := 0
	for ri, rd := range c.Rounds {
		for i := 0; i < rd.After; i++ {
			if !sim.Decide(nil) {
				break
			}
			steps++
		}
		queryRound(rd, ri)
	}
	// run to completion and do a final round
	for i := 0; ; i++ {
		stepBound(i, 1000000, "index: run to completion")
		if !sim.Decide(nil) {
			break
		}
	}
	for _, t := range muts {
		if !t.IsDone() {
			h.Violate("C13", "mutators-stuck", "", "mutator did not finish: "+describeParked(sim))
		}
	}
	final := IdxRound{Queries: []IdxQuery{{Index: "k", Limit: -1}, {Index: "n", Limit: -1}, {Index: "k", Limit: -1, Reverse: true}}}
	if len(c.Rounds) > 0 {
		final.Queries = append(final.Queries, c.Rounds[len(c.Rounds)-1].Queries...)
	}
	queryRound(final, len(c.Rounds))
	ir.checkQueryChanges()
	for _, p := range sim.Panics {
		h.Violate("C13", "panic", panicSignature(p), p)
	}
	out := &Outcome{Faults: map[string]int{"commit-error": commitErrs, "rebuild-with-queued-index-updates": rebuilds}, Evals: ir.evals + h.Evals}
	nm := 0
	for _, m := range c.Mutators {
		nm += len(m)
	}
	out.Sample = map[string]interface{}{"prefix": c.Prefix, "mutators": len(c.Mutators), "mutations": nm, "rounds": len(c.Rounds) + 1, "example_query": final.Queries[len(final.Queries)-1]}
	for _, v := range h.Viol {
		if prop == "" || v.Property == prop {
			out.Violations = append(out.Violations, v)
		}
	}
	return out
}

func describeState(state map[string]*idxRec) string {
	var parts []string
	for id, v := range state {
		parts = append(parts, fmt.Sprintf("%s:{k:%q n:%q}", id, v.K, v.N))
	}
	sort.Strings(parts)
	return strings.Join(parts, " ")
}

// onQueryChange runs inside the query-change callback, on the index worker.
func (ir *idxRun) onQueryChange(qc store.QueryChange) {
	b, a := recOf(qc.Before()), recOf(qc.After())
	ir.h.mu.Lock()
	ir.qcs = append(ir.qcs, qcRec{Seq: ir.sim.Seq(), ID: qc.ID(), Before: b, After: a})
	before := map[string]*idxRec{}
	for k, v := range ir.idxModel {
		before[k] = v
	}
	if b != nil {
		before[qc.ID()] = b
	} else {
		delete(before, qc.ID())
	}
	after := map[string]*idxRec{}
	for k, v := range before {
		after[k] = v
	}
	if a != nil {
		after[qc.ID()] = a
		ir.idxModel[qc.ID()] = a
	} else {
		delete(after, qc.ID())
		delete(ir.idxModel, qc.ID())
	}
	ir.h.mu.Unlock()
	// C14 asks for the callback to come after the index reflects the
	// mutation, not for the index to reflect nothing else: it may be ahead of
	// the callback - after a RebuildIndexes, which indexes the value stored
	// now, or in a query store that commits several index updates together
	// and then calls back for each. What the index may hold for the id is the
	// state after this mutation or after any later one committed so far
	// (asked after each probe query: mutators run while the probe is parked).
	// This is the k-th callback for the id, so its mutation is the k-th one
	// of the id that changed an index key.
	ir.h.mu.Lock()
	nth := 0
	for _, r := range ir.qcs[:len(ir.qcs)-1] {
		if r.ID == qc.ID() {
			nth++
		}
	}
	ir.h.mu.Unlock()
	laterStates := func() []*idxRec {
		ir.h.mu.Lock()
		defer ir.h.mu.Unlock()
		var out []*idxRec
		k, found := 0, false
		for _, m := range ir.muts {
			if m.ID != qc.ID() {
				continue
			}
			if found {
				out = append(out, m.After)
			} else if m.Changed {
				if k == nth {
					found = true
				}
				k++
			}
		}
		return out
	}
	// aheadWith reports whether some later state of the id satisfies want
	aheadWith := func(idx string, want func(key []byte) bool) bool {
		for _, st := range laterStates() {
			if want(idxKeyOf(idx, st)) {
				return true
			}
		}
		return false
	}
	// the index already reflects the mutation
	for _, idx := range []string{"k", "n"} {
		ok, nk := idxKeyOf(idx, b), idxKeyOf(idx, a)
		if (ok == nil) == (nk == nil) && bytes.Equal(ok, nk) {
			continue
		}

		ir.evals++
		if nk != nil {
			r, err := ir.qs.Query(IdxQuery{Index: idx, Prefix: string(nk), Limit: -1}.values())
			ids, _ := r.([]string)
			if (err != nil || !contains(ids, qc.ID())) && !aheadWith(idx, func(k []byte) bool { return k == nil || !bytes.HasPrefix(k, nk) }) {
				ir.h.Violate("C14", "callback-before-index", "new-key", fmt.Sprintf("inside the query-change callback for id %q, a query for its new %s key %q returns %q (err %v)", qc.ID(), idx, nk, ids, err))
			}
		}
		if ok != nil && !bytes.HasPrefix(nk, ok) {
			r, err := ir.qs.Query(IdxQuery{Index: idx, Prefix: string(ok), Limit: -1}.values())
			ids, _ := r.([]string)
			// the id may still match through its new key only if that key has the old one as prefix
			if err == nil && contains(ids, qc.ID()) && !aheadWith(idx, func(k []byte) bool { return k != nil && bytes.HasPrefix(k, ok) }) {
				ir.h.Violate("C14", "callback-before-index", "old-key", fmt.Sprintf("inside the query-change callback for id %q, a query for its old %s key %q still returns it: %q", qc.ID(), idx, ok, ids))
			}
		}
	}
	// affected-predicate soundness
	for _, q := range ir.c.SubQ {
		ir.evals++
		_, reset, err := qc.Events(q.values())
		if err != nil {
			ir.h.Violate("C14", "events-error", "", err.Error())
			continue
		}
		rb, ra := refQuery(before, q), refQuery(after, q)
		f := idxFilter(q.Filter)
		match := func(v *idxRec) bool {
			k := idxKeyOf(q.Index, v)
			return k != nil && bytes.HasPrefix(k, rawKey(q.Prefix)) && (f == nil || f(k))
		}
		if strings.Join(rb, ",") != strings.Join(ra, ",") && !reset {
			ir.h.Violate("C14", "affected-query-not-reported", "", fmt.Sprintf("change of id %q from %+v to %+v changes the result of %+v from %q to %q but Events reports it unaffected", qc.ID(), b, a, q, rb, ra))
		}
		if !match(b) && !match(a) && reset {
			ir.h.Violate("C14", "unaffected-query-reported", "", fmt.Sprintf("change of id %q from %+v to %+v matches %+v neither before nor after, but Events reports it affected", qc.ID(), b, a, q))
		}
	}
}

func contains(l []string, s string) bool {
	for _, x := range l {
		if x == s {
			return true
		}
	}
	return false
}

// checkQueryChanges: one callback per mutation that changes some index key,
// none otherwise, in mutation order per id.
func (ir *idxRun) checkQueryChanges() {
	byID := map[string][]mutRec{}
	for _, m := range ir.muts {
		if m.Changed {
			byID[m.ID] = append(byID[m.ID], m)
		}
	}
	qcByID := map[string][]qcRec{}
	for _, q := range ir.qcs {
		qcByID[q.ID] = append(qcByID[q.ID], q)
	}
	ids := map[string]bool{}
	for id := range byID {
		ids[id] = true
	}
	for id := range qcByID {
		ids[id] = true
	}
	for id := range ids {
		ir.evals++
		ms, qs := byID[id], qcByID[id]
		if len(ms) != len(qs) {
			ir.h.Violate("C14", "callback-count", "", fmt.Sprintf("id %q: %d mutations changed an index key but %d query-change callbacks ran", id, len(ms), len(qs)))
			continue
		}
		for i := range ms {
			if !sameRec(ms[i].Before, qs[i].Before) || !sameRec(ms[i].After, qs[i].After) {
				ir.h.Violate("C14", "callback-order", "", fmt.Sprintf("id %q: callback %d reports %+v -> %+v, mutation %d was %+v -> %+v", id, i, qs[i].Before, qs[i].After, i, ms[i].Before, ms[i].After))
			}
			if qs[i].Seq < ms[i].Seq {
				ir.h.Violate("C14", "callback-order", "before-mutation", fmt.Sprintf("id %q: callback %d ran before its mutation", id, i))
			}
		}
	}
}

func sameRec(a, b *idxRec) bool {
	if a == nil || b == nil {
		return a == b
	}
	return *a == *b
}

func init() { register(IndexScenario{}) }
