package scen

import (
	"encoding/json"
	"fmt"
	"io"
	"math/rand/v2"
	"sort"
	"strconv"
	"strings"
	"time"

	res "github.com/jirenius/go-res"

	"verif/sim/model"
	"verif/sim/sched"
)

// optionalPoints are the yield points a run may enable or disable (buggify
// subset). Mandatory points are always on.
var optionalPoints = []string{
	"handleRequest", "runWith.beforeLock", "runWith.afterAppend", "Shutdown", "Shutdown.afterWait",
	"close.beforeLock", "close.afterBroadcast", "close.afterConnClose", "close.afterCloseInCh",
	"event", "rawEvent", "queryEventExpire", "queryEventExpire.afterDrain",
	"worker.start", "worker.beforeCb", "worker.afterCb", "queryListener.recv",
	"conn.Publish", "conn.Subscribe", "conn.Close", "handler",
	"auto.lock", // inserted before every lock of a mutex field "mu" by cmd/autoyield
	"auto.go",   // inserted after every go statement by cmd/autoyield
}

func roleOf(point string) string {
	switch {
	case strings.HasPrefix(point, "worker."):
		return "worker"
	case strings.HasPrefix(point, "queryListener"):
		return "qlistener"
	case strings.HasPrefix(point, "queryEventExpire"):
		return "qtimer"
	case strings.HasPrefix(point, "updateIndex"), point == "tq.next", point == "tq.start":
		return "tqworker"
	case point == "conn.callback":
		return "conncb"
	case point == "badger.write":
		return "dbwriter"
	case point == "Shutdown" || strings.HasPrefix(point, "close."):
		return "selfshutdown"
	}
	return "lib"
}

func pick[T any](r *rand.Rand, xs ...T) T { return xs[r.IntN(len(xs))] }

func chance(r *rand.Rand, pct int) bool { return r.IntN(100) < pct }

// genPatterns draws a conflict-free pattern set.
func genPatterns(r *rand.Rand, rich bool) []PatSpec {
	type shape struct {
		mounts  []string
		pattern string
		groups  []string
		typ     int
	}
	pool := []shape{
		{nil, "model.$id", []string{"", "mg", "g.${id}", "${id}"}, 1},
		{nil, "coll", []string{"", "mg", "cg"}, 2},
		{nil, "model.$id.sub", []string{"", "g.${id}", "mg"}, 1},
		{[]string{"sub"}, "item.$x", []string{"", "${x}", "sub-${x}", "mg"}, 1},
		{[]string{"sub", "deep"}, "$a.leaf.$b", []string{"", "${b}", "g.${a}", "${a}${b}"}, 2},
		{nil, "wild.>", []string{"", "wg"}, 0},
		{nil, "model.fixed", []string{"", "mg"}, 1},
		{[]string{"sub"}, "item.special", []string{"", "1"}, 1},
		{nil, "a.b", []string{"", "test.model.1"}, 0},
		// root-level placeholders: a name that starts with a mount path but
		// matches nothing inside the mount falls back to this pattern
		{nil, "$p.$q.info", []string{"", "${p}", "g.${q}", "${q}.${p}"}, 1},
		{[]string{"sub"}, "$y.extra", []string{"", "${y}"}, 2},
		// literal nodes without handlers of their own ("far", "away") next
		// to placeholder siblings: a name ending on such a node belongs to
		// the placeholder pattern
		{nil, "model.far.away.leaf", []string{"", "mg"}, 1},
		// the same tag as in model.$id at another position: a group
		// template shared by two patterns is resolved per pattern
		{nil, "by.owner.$id", []string{"g.${id}", "${id}", "mg"}, 1},
		// the empty pattern: the resource named like the service, and the
		// one named like a mount point
		{nil, "", []string{"", "mg", "rootg"}, 1},
		{[]string{"sub"}, "", []string{"", "mg"}, 2},
	}
	n := 2 + r.IntN(4)
	perm := r.Perm(len(pool))
	var out []PatSpec
	for _, i := range perm[:n] {
		sh := pool[i]
		p := PatSpec{Mounts: sh.mounts, Pattern: sh.pattern, Type: sh.typ}
		p.Group = pick(r, sh.groups...)
		if chance(r, 12) {
			p.Parallel = true
		}
		p.Access = chance(r, 60)
		p.Get = chance(r, 80)
		if chance(r, 70) {
			p.Calls = append(p.Calls, "set")
		}
		if chance(r, 30) {
			p.Calls = append(p.Calls, "*")
		}
		if chance(r, 25) {
			p.Auths = append(p.Auths, "login")
		}
		if chance(r, 10) {
			p.Auths = append(p.Auths, "*")
		}
		if chance(r, 15) {
			p.New = true
		}
		if !p.Access && !p.Get && len(p.Calls) == 0 && len(p.Auths) == 0 && !p.New {
			p.Get = true
		}
		out = append(out, p)
	}
	// two patterns with the tag at different positions share one template
	var mi, bi = -1, -1
	for i := range out {
		switch out[i].Pattern {
		case "model.$id":
			mi = i
		case "by.owner.$id":
			bi = i
		}
	}
	if mi >= 0 && bi >= 0 && chance(r, 70) {
		g := pick(r, "g.${id}", "${id}")
		out[mi].Group, out[bi].Group = g, g
		out[mi].Parallel, out[bi].Parallel = false, false
	}
	return out
}

var tokAlphabet = []string{"1", "2", "3", "set", "new", "x", "sub", "item", "deep", "far", "away", "owner"}

// instantiate builds a concrete resource name for a pattern.
func instantiate(r *rand.Rand, full string, small bool) string {
	toks := strings.Split(full, ".")
	var out []string
	for _, t := range toks {
		switch {
		case t == ">":
			k := 1 + r.IntN(2)
			for i := 0; i < k; i++ {
				out = append(out, pick(r, "w1", "w2", "set"))
			}
		case strings.HasPrefix(t, "$"):
			if small {
				out = append(out, pick(r, "1", "2", "1", "2", "sub", "item", "far", "away"))
			} else {
				out = append(out, pick(r, tokAlphabet...))
			}
		default:
			out = append(out, t)
		}
	}
	return strings.Join(out, ".")
}

func handlerSets(c *SvcCase) []model.HandlerSet {
	var hs []model.HandlerSet
	for _, p := range c.Pats {
		hs = append(hs, model.HandlerSet{Access: p.Access, Get: p.Get, New: p.New, Calls: p.Calls, Auths: p.Auths})
	}
	return hs
}

// genRequest draws a request op that reaches a handler of pattern p.
func genRequest(r *rand.Rand, c *SvcCase, p *PatSpec, id int) (Op, bool) {
	rname := instantiate(r, c.FullPattern(p), true)
	var kinds []string
	if p.Access {
		kinds = append(kinds, "access")
	}
	if p.Get {
		kinds = append(kinds, "get")
	}
	for _, m := range p.Calls {
		if m == "*" {
			m = pick(r, "any", "foo")
		}
		kinds = append(kinds, "call:"+m)
	}
	for _, m := range p.Auths {
		if m == "*" {
			m = "other"
		}
		kinds = append(kinds, "auth:"+m)
	}
	if p.New {
		kinds = append(kinds, "call:new")
	}
	if len(kinds) == 0 {
		return Op{}, false
	}
	k := pick(r, kinds...)
	subj := ""
	if i := strings.IndexByte(k, ':'); i >= 0 {
		subj = k[:i] + "." + rname + "." + k[i+1:]
	} else {
		subj = k + "." + rname
	}
	return Op{ID: id, Kind: "req", Subject: subj}, true
}

func yields(r *rand.Rand, max int) []string {
	n := r.IntN(max + 1)
	out := make([]string, 0, n+1)
	for i := 0; i < n; i++ {
		out = append(out, "y")
	}
	return out
}

// CoreScenario exercises the queue machinery and the service life cycle
// (C01, C02, C03; also the race variants for C16).
type CoreScenario struct{}

func (CoreScenario) Name() string { return "core" }

func (CoreScenario) Gen(r *rand.Rand, prop string) *SvcCase {
	c := &SvcCase{SvcName: "test", Gate: true}
	c.Workers = pick(r, 1, 1, 2, 2, 3, 4, 32)
	c.InCh = pick(r, 1, 2, 3, 4, 8, 1024)
	c.QueryMs = pick(r, 50, 1000, 3000)
	c.Pats = genPatterns(r, false)
	// optional yield points: random subset, all, or few
	switch r.IntN(4) {
	case 0:
		c.Optional = []string{"*"}
	default:
		for _, p := range optionalPoints {
			if chance(r, 65) {
				c.Optional = append(c.Optional, p)
			}
		}
	}
	// (C15 runs this scenario for query events in several Serve calls of one
	// service: always a lifecycle, always query events)
	lifecycle := prop == "C03" || prop == "C15" || chance(r, 40)
	c.Epochs = 1
	if lifecycle && chance(r, 50) {
		c.Epochs = 2 + r.IntN(2)
	}
	for i := 0; i < c.Epochs; i++ {
		if lifecycle && chance(r, 70) {
			c.MidStop = append(c.MidStop, r.IntN(120))
		} else {
			c.MidStop = append(c.MidStop, -1)
		}
	}
	if lifecycle && chance(r, 20) {
		c.Gate = false
	}
	if c.Epochs > 1 && chance(r, 40) {
		c.OverlapServe = true
		c.LingerServe = chance(r, 50)
	}
	if chance(r, 10) {
		c.LosePct = 10
	}
	if lifecycle && chance(r, 12) {
		c.BlockingConn = true
		c.InCh = pick(r, 1, 1, 2)
	}
	id := 0
	next := func() int { id++; return id }
	withQE := chance(r, 20) || prop == "C15"
	// peer
	peer := ActorSpec{Name: "peer"}
	nreq := 3 + r.IntN(10)
	nqe := 0
	for i := 0; i < nreq; i++ {
		p := &c.Pats[r.IntN(len(c.Pats))]
		op, ok := genRequest(r, c, p, next())
		if !ok {
			continue
		}
		op.Ep = r.IntN(c.Epochs)
		op.Script = yields(r, 2)
		if withQE && strings.HasPrefix(op.Subject, "call.") && !strings.HasSuffix(op.Subject, ".new") && (chance(r, 40) || prop == "C15") {
			op.Script = append(op.Script, "qe:y,"+pick(r, "model", "coll", "chg", "notfound", ""))
			nqe++
		}
		op.Script = append(op.Script, "r:default")
		peer.Ops = append(peer.Ops, op)
		if nqe > 0 && chance(r, 50) {
			peer.Ops = append(peer.Ops, Op{ID: next(), Kind: "qreq", Args: []string{strconv.Itoa(r.IntN(nqe))}, Script: append(yields(r, 1), pick(r, "model", "coll", "", "notfound")), Ep: op.Ep})
		}
	}
	sortOpsByEpoch(peer.Ops)
	c.Actors = append(c.Actors, peer)
	// producers
	nprod := r.IntN(3)
	if lifecycle && nprod == 0 {
		nprod = 1
	}
	for pi := 0; pi < nprod; pi++ {
		a := ActorSpec{Name: "prod" + strconv.Itoa(pi+1)}
		nops := 1 + r.IntN(6)
		for i := 0; i < nops; i++ {
			p := &c.Pats[r.IntN(len(c.Pats))]
			rid := instantiate(r, c.FullPattern(p), true)
			op := Op{ID: next(), Ep: r.IntN(c.Epochs), Script: yields(r, 2)}
			switch k := r.IntN(100); {
			case k < 35:
				op.Kind, op.RID = "with", rid
				if chance(r, 10) {
					op.RID = "test.nomatch." + strconv.Itoa(i)
				}
				if chance(r, 20) {
					op.RID += "?q=1"
				}
			case k < 50:
				op.Kind, op.RID = "withres", rid
			case k < 80:
				op.Kind = "withgroup"
				// collide with the reference group of the resource, a
				// literal group, or something fresh
				_, _, g := model.Match(patsOf(c), rid)
				op.Group = pick(r, g, g, "mg", "1", "2", "g.1", rid, "fresh", "")
			default:
				if lifecycle {
					op.Kind = pick(r, "reset", "resetall", "token", "tokenid", "tokenreset", "emit")
					if op.Kind == "emit" {
						op.RID = rid
						if p.Type == 0 {
							op.Kind = "reset"
						}
					}
				} else {
					op.Kind, op.RID = "with", rid
				}
			}
			a.Ops = append(a.Ops, op)
		}
		sortOpsByEpoch(a.Ops)
		c.Actors = append(c.Actors, a)
	}
	if c.LingerServe {
		// the epoch after a restart keeps one group busy: several callbacks
		// that pause in their handlers, from two producers
		if c.Workers < 2 {
			c.Workers = 2
		}
		for k := 0; k < 2; k++ {
			a := ActorSpec{Name: "twin" + strconv.Itoa(k+1)}
			for i, n := 0, 2+r.IntN(2); i < n; i++ {
				a.Ops = append(a.Ops, Op{ID: next(), Kind: "withgroup", Group: "lg", Ep: c.Epochs - 1, Script: []string{"y", "y"}})
			}
			c.Actors = append(c.Actors, a)
		}
	}
	if chance(r, 10) {
		// a deep backlog: many callbacks for one group and a few for
		// another, on few workers (a policy that depends on how many
		// callbacks a group has had, or has left, needs this to show)
		c.Workers = pick(r, 1, 2, 2, 3)
		a := ActorSpec{Name: "burst"}
		g := pick(r, "mg", "1", "fresh")
		nb := 10 + r.IntN(16)
		marks := map[int]bool{8: true, 16: true}
		if chance(r, 35) || lifecycle {
			// long enough to pass thresholds such as 32, 64 or 256
			// callbacks: the workers are held until that many are queued,
			// and the following submissions arrive exactly when they have
			// caught up. With a Shutdown in the run (lifecycle) it comes
			// while a backlog of that depth is being worked off.
			c.HoldWorkers = pick(r, 31, 32, 33, 34, 63, 64, 65, 66, 70, 127, 128, 129, 130, 255, 256, 257, 258)
			nb = c.HoldWorkers + 3 + r.IntN(4)
			marks = map[int]bool{c.HoldWorkers: true, c.HoldWorkers + 1: true, c.HoldWorkers + 2: true}
		}
		for i, n := 0, nb; i < n; i++ {
			op := Op{ID: next(), Kind: "withgroup", Group: g}
			if chance(r, 15) && c.HoldWorkers == 0 {
				op.Group = "other"
			}
			if chance(r, 30) {
				op.Script = []string{"y"}
			}
			if marks[i] {
				// after a round number of callbacks, submit exactly when
				// the worker has caught up
				op.Args = []string{"drainwait"}
				if i > 0 {
					a.Ops[len(a.Ops)-1].Script = []string{"y", "y"}
				}
			}
			a.Ops = append(a.Ops, op)
		}
		c.Actors = append(c.Actors, a)
	}
	return c
}

func sortOpsByEpoch(ops []Op) {
	// stable insertion sort by Ep
	for i := 1; i < len(ops); i++ {
		for j := i; j > 0 && ops[j-1].Ep > ops[j].Ep; j-- {
			ops[j-1], ops[j] = ops[j], ops[j-1]
		}
	}
}

func patsOf(c *SvcCase) []model.Pat {
	var out []model.Pat
	for i := range c.Pats {
		p := &c.Pats[i]
		out = append(out, model.Pat{ID: i, Full: c.FullPattern(p), Group: p.Group, Parallel: p.Parallel})
	}
	return out
}

// SvcRun is the outcome of a service scenario run.
type SvcRun struct {
	E          *Engine
	H          *Hist
	States     map[string]bool
	Hang       string
	serveStuck bool
	Final      string // parked tasks when the loop ended (debug output)
}

// RunSvc runs a SvcCase to completion inside the bubble and returns the
// engine for the oracles.
func RunSvc(sim *sched.Sim, c *SvcCase, raceMode bool, setup func(e *Engine)) *SvcRun {
	h := NewHist(sim)
	h.Off = raceMode
	if len(c.Optional) == 1 && c.Optional[0] == "*" {
		sim.Optional = nil
	} else {
		sim.Optional = map[string]bool{}
		for _, p := range c.Optional {
			sim.Optional[p] = true
		}
	}
	sim.RoleOf = roleOf
	e := NewEngine(sim, h, c)
	run := &SvcRun{E: e, H: h, States: map[string]bool{}}
	useCanon(sim)
	sim.Observer = e.HookObserver2
	res.VerifHook = sim.Yield
	defer func() { res.VerifHook = nil }()
	sim.AddProvider(e.DeliverActions)
	sim.AddProvider(e.TimeActions)
	if setup != nil {
		setup(e)
	}
	e.StartActors()

	life := sim.TaskByName("life")
	started := func(ep int) bool {
		if ep >= len(e.Epochs) {
			return false
		}
		if e.Epochs[ep].ServeReturn != 0 || e.ServeDone() {
			return true
		}
		if c.Gate {
			return e.Epochs[ep].Started != 0
		}
		return int(e.cur.Load()) >= ep
	}
	libParked := 0
	burstSubmitted := func() int {
		n := 0
		for ai := range c.Actors {
			if c.Actors[ai].Name != "burst" {
				continue
			}
			e.H.mu.Lock()
			for oi := range c.Actors[ai].Ops {
				if s := e.Subs[c.Actors[ai].Ops[oi].ID]; s != nil && s.Return != 0 {
					n++
				}
			}
			e.H.mu.Unlock()
		}
		return n
	}
	filter := func(t *sched.Task) bool {
		if !t.Harness {
			if c.HoldWorkers > 0 && t.Role == "worker" && !e.idleNow && burstSubmitted() < c.HoldWorkers {
				return false
			}
			return true
		}
		if t == life {
			return t.Point != "life.wait" // life.wait is handled below
		}
		if t.Point == "serve.wait" {
			ep, _ := strconv.Atoi(t.Arg)
			if ep == 0 || e.Epochs[ep-1].ServeReturn != 0 {
				return true
			}
			prev := e.Epochs[ep-1]
			return c.OverlapServe && (prev.ShutdownReturn != 0 || prev.SelfShutdown)
		}
		if t.Point == "serve.retrywait" {
			// Serve was refused because the previous Shutdown is still in
			// progress: retry once that call has returned, or once no
			// library goroutine is left that could be finishing it
			ep, _ := strconv.Atoi(t.Arg)
			if ep == 0 || e.Epochs[ep-1].ShutdownReturn != 0 || life.IsDone() {
				return true
			}
			if e.Epochs[ep-1].ShutdownInvoke != 0 && life.IsParked() && life.Point != "life.wait" {
				// the Shutdown call itself is parked at a yield point
				// inside the library: let it go on instead of polling
				return false
			}
			return libParked == 0
		}
		if t.Point == "actor.op" {
			id, _ := strconv.Atoi(t.Arg)
			if id > 0 && id < len(e.Subs) && e.Subs[id] != nil {
				op := e.Subs[id].Op
				if op.Kind == "qreq" && len(op.Args) > 1 && op.Args[1] == "wait" {
					// wait until the targeted query event exists (or the
					// peer that would start it is done)
					k, _ := strconv.Atoi(op.Args[0])
					e.H.mu.Lock()
					n := len(e.QEs)
					e.H.mu.Unlock()
					if n <= k && !e.idleNow {
						return false
					}
				}
				if len(op.Args) > 0 && op.Args[0] == "drainwait" && !e.idleNow {
					// hold this submission until the worker has caught up
					// with the actor: everything it submitted before has
					// started and something is still executing, so that
					// the submission lands while the group's last pending
					// callback runs
					for ai := range c.Actors {
						if c.Actors[ai].Name != t.Name {
							continue
						}
						for oi := range c.Actors[ai].Ops {
							prev := &c.Actors[ai].Ops[oi]
							if prev.ID == op.ID {
								break
							}
							e.H.mu.Lock()
							ps := e.Subs[prev.ID]
							notStarted := ps != nil && ps.Err == "" && len(ps.Starts) == 0
							e.H.mu.Unlock()
							if notStarted {
								return false
							}
						}
					}
					if e.H.Executing() == 0 {
						return false
					}
				}
				return started(op.Ep)
			}
		}
		return true
	}
	idleTime := time.Duration(0)
	for iter := 0; iter < 20000; iter++ {
		sim.Wait()
		for _, st := range e.serveTasks {
			if st.IsParked() && st.Point == "serve.retrywait" {
				libParked = 0
				for _, t := range sim.Parked() {
					if !t.Harness {
						libParked++
					}
				}
				break
			}
		}
		if e.ServeDone() && life.IsDone() && e.ActorsDone() {
			acts := sim.Enabled(filter)
			if len(acts) == 0 {
				break
			}
		}
		run.noteState()
		acts := sim.Enabled(filter)
		if len(nonTime(acts)) == 0 && !e.idleNow {
			e.idleNow = true
			acts = sim.Enabled(filter)
			// nothing can run: a Serve call whose Shutdown has returned and
			// that is neither done nor parked at a yield point is blocked
			// inside the library
			for i, st := range e.serveTasks {
				ep := e.Epochs[i]
				if ep.ShutdownReturn != 0 && ep.ShutdownErr == "" && ep.ServeInvoke != 0 && !st.IsDone() && !st.IsParked() && !run.serveStuck {
					run.serveStuck = true
					e.H.Violate("C03", "serve-blocked-after-shutdown", "", fmt.Sprintf("epoch %d: Shutdown has returned and nothing is runnable, but the Serve call of that epoch is still blocked inside the library (the service was served again meanwhile: %v)", i, i+1 < len(e.Epochs) && e.Epochs[i+1].ServeInvoke != 0))
				}
			}
		} else if len(nonTime(acts)) > 0 {
			e.idleNow = false
		}
		// lifecycle: is the life task eligible?
		if life.IsParked() && life.Point == "life.wait" {
			ep, _ := strconv.Atoi(life.Arg)
			ms := -1
			if ep < len(c.MidStop) {
				ms = c.MidStop[ep]
			}
			eligible := false
			info := e.Epochs[ep]
			if ms >= 0 && int(sim.Step()) >= ms && ep <= int(e.cur.Load()) && info.ServeInvoke != 0 && (info.Refused < 3 || info.Started != 0) {
				eligible = true
				if c.HoldWorkers > 0 && ep == 0 && burstSubmitted() < c.HoldWorkers {
					// a burst run: the first Shutdown comes while the
					// backlog is being worked off, not before it exists
					eligible = false
				}
			}
			if info.ServeReturn != 0 {
				eligible = true
			}
			if !eligible && len(nonTime(acts)) == 0 && !e.sleepers() {
				// quiescent: clean shutdown of this epoch
				if len(acts) == 0 && info.ServeInvoke == 0 && info.Refused >= 3 {
					// the epoch cannot begin (its Serve call waits for the
					// previous one, which is stuck): not a state to poll in
					run.Hang = "Serve never returned; the next epoch cannot begin"
					break
				}
				if len(acts) == 0 {
					e.checkQuiescent(ep)
					eligible = true
				}
			}
			if eligible {
				acts = append(acts, sim.TaskAction(life))
			}
		}
		if len(acts) == 0 {
			// nothing enabled: let sleeping tasks and timers make progress
			if idleTime < 60*time.Second {
				e.Sleep(time.Second)
				idleTime += time.Second
				continue
			}
			serve := e.serveTasks[0]
			for _, st := range e.serveTasks {
				if !st.IsDone() {
					serve = st
					break
				}
			}
			run.Hang = run.classifyHang(serve, life)
			break
		}
		idleTime = 0
		lingering := c.LingerServe
		if lingering {
			// (until a callback of the next epoch is in the middle of its
			// handler: then the old Serve call may make its last steps)
			for _, t := range sim.Parked() {
				if t.Point == "handler" {
					lingering = false
				}
			}
		}
		{
			// the Serve call of an epoch whose Shutdown has returned is on
			// its way out: keep it there as long as anything else can run,
			// and let it go first once a callback is in its handler
			var rest, old []sched.Action
			for _, a := range acts {
				if !c.LingerServe {
					break
				}
				held := false
				for i, ep := range e.Epochs {
					if ep.ShutdownReturn != 0 && i < len(e.serveTasks) && !e.serveTasks[i].IsDone() && strings.HasPrefix(a.Label, "run "+e.serveTasks[i].Name+" @") {
						held = true
					}
				}
				if !held {
					rest = append(rest, a)
				} else {
					old = append(old, a)
				}
			}
			if c.LingerServe && lingering && len(nonTime(rest)) > 0 {
				if len(old) > 0 {
					sim.Probe("old Serve call held on its way out")
				}
				acts = rest
			} else if c.LingerServe && !lingering && len(old) > 0 {
				sim.Probe("old Serve call let go while a callback of the next epoch is in its handler")
				acts = old
			}
		}
		sim.Perform(sim.Pick(acts))
		if iter == 19999 {
			// no run needs this many decisions: something polls forever
			run.Hang = "step-cap; the run was still taking scheduling decisions after 20000 steps"
		}
	}
	for _, t := range sim.Parked() {
		run.Final += " [" + t.Name + "/" + t.Role + " @" + t.Point + "(" + t.Arg + ")]"
	}
	return run
}

func nonTime(acts []sched.Action) []sched.Action {
	var out []sched.Action
	for _, a := range acts {
		if !strings.HasPrefix(a.Label, "time+") {
			out = append(out, a)
		}
	}
	return out
}

func (e *Engine) sleepers() bool { return false }

func (r *SvcRun) noteState() {
	st := r.E.Svc.VerifQueueState()
	if st.Busy {
		return
	}
	k := fmt.Sprintf("s%d/n%v/q%d/r%d/p%d", st.State, st.QueueNil, st.QueueLen, st.Registered, st.PendingTotal)
	r.States[k] = true
}

func (r *SvcRun) classifyHang(serve, life *sched.Task) string {
	st := r.E.Svc.VerifQueueState()
	what := ""
	switch {
	case !life.IsDone() && !life.IsParked():
		what = "Shutdown never returned"
	case !serve.IsDone() && !serve.IsParked():
		what = "Serve never returned"
	default:
		what = "actors never finished"
	}
	sig := fmt.Sprintf("state=%d queueNil=%v queueLen=%d", st.State, st.QueueNil, st.QueueLen)
	if st.Busy {
		sig = "the service lock is held by a parked goroutine"
	}
	return what + "; " + sig
}

// checkQuiescent runs the exactly-once oracle of C02 for epoch ep at a
// quiescent instant before a clean shutdown.
func (e *Engine) checkQuiescent(ep int) {
	if e.H.Off {
		return
	}
	if e.OnQuiescent != nil {
		e.OnQuiescent(ep)
	}
	hs := handlerSets(e.Case)
	info := e.Epochs[ep]
	if e.foreignShutdownEpoch >= 0 && ep >= e.foreignShutdownEpoch {
		return
	}
	for _, s := range e.Subs {
		if s == nil || s.Epoch != ep {
			continue
		}
		e.H.Evals++
		expect := -1
		switch s.Kind {
		case "req":
			if s.Delivered == 0 || s.Invoke == 0 {
				continue
			}
			d := model.Predict(e.Pats, hs, s.Op.Subject, e.autoPayload(s.Op), !s.Op.NoReply)
			if d.Handler != "" {
				expect = 1
			} else {
				expect = 0
			}
		case "with", "withres", "withgroup":
			if s.Invoke == 0 || s.Return == 0 {
				continue
			}
			if s.Err != "" {
				expect = 0
			} else if info.Started != 0 && s.Invoke > info.Started && (info.ShutdownInvoke == 0 || s.Return < info.ShutdownInvoke) {
				expect = 1
			}
		case "qreq":
			if s.Delivered == 0 {
				continue
			}
			// delivered into the query subscription while active
			continue
		}
		if expect >= 0 && len(s.Starts) != expect {
			cls := "lost-callback"
			if len(s.Starts) > expect {
				cls = "duplicate-callback"
			}
			e.H.Violate("C02", cls, "", fmt.Sprintf("submission %d (%s %s%s group %q) started %d times at quiescence, expected %d", s.Op.ID, s.Kind, s.Op.Subject, s.Op.RID, s.Group, len(s.Starts), expect))
			if ep > 0 {
				e.H.Violate("C03", "guarantee-lost-after-restart", cls, fmt.Sprintf("epoch %d (after a Shutdown/Serve cycle): submission %d (%s %s%s group %q) started %d times at quiescence, expected %d", ep, s.Op.ID, s.Kind, s.Op.Subject, s.Op.RID, s.Group, len(s.Starts), expect))
			}
		}
	}
}

// HookObserver2 records enqueue completion of requests by the listener and
// forwards to the drain emulation.
func (e *Engine) HookObserver2(point, arg string) {
	e.HookObserver(point, arg)
	if e.H.Off {
		return
	}
	switch point {
	case "runWith.afterAppend":
		e.Sim.Probe("enqueue onto the registered work item of a busy group")
	case "worker.wake":
		if e.Svc != nil && !e.Svc.VerifQueueState().Busy && e.Svc.VerifQueueState().QueueNil {
			e.Sim.Probe("worker woke to a nil queue (closing)")
		}
	case "close.beforeLock":
		if e.Svc != nil && e.Svc.VerifQueueState().QueueLen > 0 {
			e.Sim.Probe("Shutdown drops work that is queued but not started")
		}
		for _, t := range e.Sim.ParkedUnsafe() {
			if t.Point == "runWith.beforeLock" {
				e.Sim.Probe("submission parked between started-check and lock while Shutdown closes the queue")
			}
			if t.Point == "event" || t.Point == "rawEvent" {
				e.Sim.Probe("event parked before its publish while Shutdown runs")
			}
		}
	}
	switch point {
	case "Shutdown":
		if t := e.Sim.Current(); t == nil || (t.Name != "life" && t.Role != "conncb") {
			// a Shutdown the harness did not ask for (the library's own
			// "go s.Shutdown()" after a failed subscribe): the started
			// windows of this and later epochs are no longer known.
			e.H.mu.Lock()
			if e.foreignShutdownEpoch < 0 {
				e.foreignShutdownEpoch = int(e.cur.Load())
			}
			e.H.mu.Unlock()
		}
	case "handleRequest":
		// per listener goroutine: after an overlapping restart the listener
		// of the previous Serve call may still be handing over requests
		if t := e.Sim.Current(); t != nil {
			e.H.mu.Lock()
			if e.curReq == nil {
				e.curReq = map[string]*Submission{}
			}
			e.curReq[t.Name] = e.lookupSubject(arg)
			e.H.mu.Unlock()
		}
	case "runWith.afterSignal", "runWith.afterAppend":
		t := e.Sim.Current()
		if t != nil && strings.HasPrefix(t.Name, "serve") {
			e.H.mu.Lock()
			if cr := e.curReq[t.Name]; cr != nil && cr.Enqueued == 0 {
				cr.Enqueued = e.Sim.Seq()
			}
			e.H.mu.Unlock()
		}
	}
}

func (e *Engine) lookupSubject(subject string) *Submission {
	// requests are processed in delivery order; find the earliest delivered
	// submission with this subject that has no Enqueued stamp yet.
	var best *Submission
	for _, s := range e.Subs {
		if s != nil && s.Kind == "req" && s.Op.Subject == subject && s.Delivered != 0 && s.Enqueued == 0 {
			if best == nil || s.Delivered < best.Delivered {
				best = s
			}
		}
	}
	return best
}

// ---- post-run oracles ------------------------------------------------------

// CheckOrder is the C02 ordering oracle: per group, callback start order is a
// linear extension of the submission precedence.
func (r *SvcRun) CheckOrder() {
	e := r.E
	var subs []*Submission
	for _, s := range e.Subs {
		if s != nil && len(s.Starts) > 0 && !s.Parallel && s.Group != "" {
			subs = append(subs, s)
		}
	}
	prec := func(a, b *Submission) bool {
		if a.Epoch != b.Epoch {
			return false
		}
		aReq, bReq := a.Kind == "req", b.Kind == "req"
		aW := a.Kind == "with" || a.Kind == "withres" || a.Kind == "withgroup"
		bW := b.Kind == "with" || b.Kind == "withres" || b.Kind == "withgroup"
		switch {
		case aReq && bReq:
			return a.Delivered != 0 && b.Delivered != 0 && a.Delivered < b.Delivered
		case aW && bW:
			return a.Return != 0 && a.Return < b.Invoke
		case aW && bReq:
			return a.Return != 0 && b.Delivered != 0 && a.Return < b.Delivered
		case aReq && bW:
			return a.Enqueued != 0 && a.Enqueued < b.Invoke
		}
		return false
	}
	for _, a := range subs {
		for _, b := range subs {
			if a == b || a.Group != b.Group {
				continue
			}
			e.H.Evals++
			if prec(a, b) && a.Starts[0] > b.Starts[0] {
				e.H.Violate("C02", "order", "", fmt.Sprintf("group %q: submission %d (%s) precedes %d (%s) but started after it", a.Group, a.Op.ID, a.Kind, b.Op.ID, b.Kind))
			}
		}
	}
	// at-most-once and With error contract
	for _, s := range e.Subs {
		if s == nil {
			continue
		}
		e.H.Evals++
		if len(s.Starts) > 1 {
			e.H.Violate("C02", "duplicate-callback", "", fmt.Sprintf("submission %d started %d times", s.Op.ID, len(s.Starts)))
		}
		if (s.Kind == "with") && s.Return != 0 {
			if (s.Err != "") != (s.PatID < 0) {
				e.H.Violate("C02", "with-error-contract", "", fmt.Sprintf("With(%q) err=%q but reference match=%d", s.Op.RID, s.Err, s.PatID))
			}
			if s.Err != "" && len(s.Starts) > 0 {
				e.H.Violate("C02", "with-error-ran", "", fmt.Sprintf("With(%q) returned an error but ran its callback", s.Op.RID))
			}
		}
	}
}

// CheckLifecycle is the C03 oracle over the recorded history.
func (r *SvcRun) CheckLifecycle() {
	e := r.E
	h := r.H
	if r.Hang != "" {
		cls := "shutdown-hang"
		h.Violate("C03", cls, strings.SplitN(r.Hang, ";", 2)[0], r.Hang+"; parked at the end:"+r.Final)
	}
	for _, p := range e.Sim.Panics {
		h.Violate("C03", "panic", panicSignature(p), p)
	}
	for i, ep := range e.Epochs {
		h.Evals++
		if ep.SelfShutdown && ep.ServeErr == "" && ep.Conn.Stats.SubErrors == 0 {
			// Serve returned although nobody called Shutdown in this epoch
			// and no subscription failed: something else stopped the service
			// (for instance the closed callback of an earlier connection)
			h.Violate("C03", "stopped-without-shutdown", "", fmt.Sprintf("epoch %d: the Serve call returned without error although Shutdown was not called in that epoch and no subscribe failed", i))
		}
		if ep.ShutdownReturn != 0 && ep.ShutdownErr == "" {
			if ep.Conn.CloseCount != 1 {
				h.Violate("C03", "close-count", strconv.Itoa(ep.Conn.CloseCount), fmt.Sprintf("epoch %d: connection closed %d times", i, ep.Conn.CloseCount))
			}
			// nothing starts after Shutdown returned, within the epoch
			nextServe := ^uint64(0)
			if i+1 < len(e.Epochs) && e.Epochs[i+1].ServeInvoke != 0 {
				nextServe = e.Epochs[i+1].ServeInvoke
			}
			for _, rec := range h.Recs {
				if rec.Kind == "cb.enter" && rec.Seq > ep.ShutdownReturn && rec.Seq < nextServe {
					h.Violate("C03", "callback-after-shutdown", "", fmt.Sprintf("epoch %d: callback of group %q started after Shutdown returned", i, rec.Group))
				}
			}
			// no publish on the closed connection's successor before next serve
		}
	}
	// effect windows for calls
	for _, s := range e.Subs {
		if s == nil || s.Invoke == 0 || s.Return == 0 {
			continue
		}
		switch s.Kind {
		case "reset", "resetall", "token", "tokenid", "tokenreset", "emit":
		default:
			continue
		}
		h.Evals++
		pubs := 0
		for _, ep := range e.Epochs {
			for _, p := range ep.Conn.Pubs {
				if p.Task == s.Actor && p.Seq > s.Invoke && p.Seq < s.Return {
					pubs++
				}
			}
		}
		inside, stopped := false, false
		for i, ep := range e.Epochs {
			if e.foreignShutdownEpoch >= 0 && i >= e.foreignShutdownEpoch {
				continue
			}
			if ep.Started != 0 && s.Invoke > ep.Started && (ep.ShutdownInvoke == 0 || s.Return < ep.ShutdownInvoke) && (ep.ServeReturn == 0 || s.Return < ep.ServeReturn) {
				inside = true
			}
			nextServe := ^uint64(0)
			if i+1 < len(e.Epochs) && e.Epochs[i+1].ServeInvoke != 0 {
				nextServe = e.Epochs[i+1].ServeInvoke
			} else if i+1 < len(e.Epochs) {
				nextServe = 0
			}
			if ep.ShutdownReturn != 0 && ep.ShutdownErr == "" && s.Invoke > ep.ShutdownReturn && s.Return < nextServe {
				stopped = true
			}
		}
		if e.Epochs[0].ServeInvoke != 0 && s.Return < e.Epochs[0].ServeInvoke {
			stopped = true
		}
		if inside && pubs != 1 && s.Err == "" {
			h.Violate("C03", "call-without-effect", s.Kind, fmt.Sprintf("%s call %d entirely inside the started window published %d messages", s.Kind, s.Op.ID, pubs))
		}
		if stopped && pubs != 0 {
			h.Violate("C03", "effect-while-stopped", s.Kind, fmt.Sprintf("%s call %d while stopped published %d messages", s.Kind, s.Op.ID, pubs))
		}
	}
	// callbacks of With submitted entirely while stopped must not run
	for _, s := range e.Subs {
		if s == nil || s.Invoke == 0 || s.Return == 0 {
			continue
		}
		if s.Kind != "with" && s.Kind != "withres" && s.Kind != "withgroup" {
			continue
		}
		for i, ep := range e.Epochs {
			nextServe := ^uint64(0)
			if i+1 < len(e.Epochs) {
				nextServe = e.Epochs[i+1].ServeInvoke
			}
			if ep.ShutdownReturn != 0 && ep.ShutdownErr == "" && s.Invoke > ep.ShutdownReturn && nextServe != 0 && s.Return < nextServe && len(s.Starts) > 0 {
				h.Violate("C03", "callback-from-stopped-submission", s.Kind, fmt.Sprintf("submission %d made while stopped ran", s.Op.ID))
			}
		}
	}
}

// panicSignature extracts the top go-res frame of a panic report.
func panicSignature(p string) string {
	for _, line := range strings.Split(p, "\n") {
		line = strings.TrimSpace(line)
		if strings.HasPrefix(line, "github.com/jirenius/go-res") {
			if i := strings.IndexByte(line, '('); i > 0 {
				// keep function name only
				fn := line[:strings.LastIndex(line, "(")]
				return fn
			}
			return line
		}
	}
	first := strings.SplitN(p, "\n", 2)[0]
	return first
}

type canonT struct {
	keys [256]string
	n    int
}

func newCanon() *canonT { return &canonT{} }

// canon replaces random inbox names by their order of first appearance. It
// is called under the scheduler's lock, by the scheduler at decision points
// for the tasks that parked since the last one, in their canonical order:
// several goroutines may have been woken in one step (timers due at the same
// instant), and the order in which they arrive is not the simulator's. It uses no map and is not instrumented, so that it is
// invisible to the race detector.
//
//go:norace
func (c *canonT) canon(s string) string {
	i := strings.Index(s, "_INBOX.")
	if i < 0 {
		i = randomToken(s)
	}
	if i < 0 || strings.HasPrefix(s[i:], "_INBOX.peer.") {
		return s
	}
	key := s[i:]
	for k := 0; k < c.n; k++ {
		if c.keys[k] == key {
			return s[:i] + "INBOX#" + strconv.Itoa(k+1)
		}
	}
	if c.n < len(c.keys) {
		c.keys[c.n] = key
		c.n++
	}
	return s[:i] + "INBOX#" + strconv.Itoa(c.n)
}

// randomToken finds a subject that was made unique in another way than by
// nats.NewInbox (a library that builds its query subjects differently is
// still correct): the position of the first dot-separated token of 16 or
// more letters and digits, or -1.
//
//go:norace
func randomToken(s string) int {
	start := 0
	for i := 0; i <= len(s); i++ {
		if i < len(s) {
			ch := s[i]
			if ch >= '0' && ch <= '9' || ch >= 'a' && ch <= 'z' || ch >= 'A' && ch <= 'Z' {
				continue
			}
		}
		if i-start >= 16 && (i == len(s) || s[i] == '.' || s[i] == ' ') && (start == 0 || s[start-1] == '.' || s[start-1] == ' ') {
			return start
		}
		start = i + 1
	}
	return -1
}

// peek applies the names handed out so far and masks the others.
//
//go:norace
func (c *canonT) peek(s string) string {
	i := strings.Index(s, "_INBOX.")
	if i < 0 {
		i = randomToken(s)
	}
	if i < 0 || strings.HasPrefix(s[i:], "_INBOX.peer.") {
		return s
	}
	key := s[i:]
	for k := 0; k < c.n; k++ {
		if c.keys[k] == key {
			return s[:i] + "INBOX#" + strconv.Itoa(k+1)
		}
	}
	return s[:i] + "INBOX#?"
}

// useCanon makes sim canonicalise inbox names in hook arguments.
func useCanon(sim *sched.Sim) *canonT {
	c := newCanon()
	sim.Canon, sim.CanonPeek = c.canon, c.peek
	return c
}

func (CoreScenario) GenCase(r *rand.Rand, prop string) interface{} {
	return CoreScenario{}.Gen(r, prop)
}

func (CoreScenario) DecodeCase(raw json.RawMessage) (interface{}, error) {
	c := &SvcCase{}
	err := json.Unmarshal(raw, c)
	return c, err
}

func (CoreScenario) Execute(sim *sched.Sim, c interface{}, prop string, race bool) *Outcome {
	cs := c.(*SvcCase)
	run := RunSvc(sim, cs, race, nil)
	if !race {
		run.CheckOrder()
		run.CheckLifecycle()
	}
	return run.Outcome(prop)
}

func (CoreScenario) Shrinks(c interface{}) []interface{} { return shrinkSvcCase(c.(*SvcCase)) }

// Outcome summarises the run for the given property ("" = all).
func (r *SvcRun) Outcome(prop string) *Outcome {
	o := &Outcome{Faults: map[string]int{}}
	for _, v := range r.H.Viol {
		if prop == "" || v.Property == prop {
			o.Violations = append(o.Violations, v)
		}
	}
	o.Evals = r.H.Evals
	for k := range r.States {
		o.States = append(o.States, k)
	}
	sort.Strings(o.States)
	for _, ep := range r.E.Epochs {
		st := ep.Conn.Stats
		o.Faults["slow-consumer-drop"] += st.SlowDrops
		o.Faults["request-lost"] += st.Lost
		o.Faults["publish-error"] += st.PublishErrors
		o.Faults["subscribe-error"] += st.SubErrors
		o.Faults["publish-after-close"] += st.AfterClose
	}
	for i, ms := range r.E.Case.MidStop {
		if ms >= 0 && i < len(r.E.Epochs) && r.E.Epochs[i].ShutdownInvoke != 0 {
			o.Faults["shutdown-mid-run"]++
		}
	}
	if r.H.MaxOcc >= 2 {
		r.E.Sim.Probe("parallel handlers overlapped")
	}
	o.SimTime = r.E.timeSlept
	o.Debug = func(w io.Writer) {
		for _, rec := range r.H.Recs {
			fmt.Fprintf(w, "  H seq=%d step=%d %s task=%s group=%q sub=%d %s\n", rec.Seq, rec.Step, rec.Kind, rec.Task, rec.Group, rec.Sub, rec.Extra)
		}
		fmt.Fprintf(w, "  hang=%q parked at end:%s\n", r.Hang, r.Final)
	}
	nops := 0
	for _, a := range r.E.Case.Actors {
		nops += len(a.Ops)
	}
	o.Sample = map[string]interface{}{"workers": r.E.Case.Workers, "in_ch": r.E.Case.InCh, "patterns": len(r.E.Case.Pats),
		"actors": len(r.E.Case.Actors), "ops": nops, "epochs": r.E.Case.Epochs, "mid_stop": r.E.Case.MidStop, "optional_points": len(r.E.Case.Optional)}
	return o
}

func cloneCase(c *SvcCase) *SvcCase {
	b, _ := json.Marshal(c)
	n := &SvcCase{}
	json.Unmarshal(b, n)
	return n
}

func shrinkSvcCase(c *SvcCase) []interface{} {
	var out []interface{}
	// drop an actor
	for i := range c.Actors {
		if len(c.Actors) > 1 || len(c.Actors[i].Ops) > 0 {
			n := cloneCase(c)
			n.Actors = append(n.Actors[:i:i], n.Actors[i+1:]...)
			out = append(out, n)
		}
	}
	// drop halves of ops, then single ops
	for i := range c.Actors {
		ops := c.Actors[i].Ops
		if len(ops) >= 4 {
			n := cloneCase(c)
			n.Actors[i].Ops = n.Actors[i].Ops[:len(ops)/2]
			out = append(out, n)
			n = cloneCase(c)
			n.Actors[i].Ops = n.Actors[i].Ops[len(ops)/2:]
			out = append(out, n)
		}
		for j := range ops {
			n := cloneCase(c)
			n.Actors[i].Ops = append(n.Actors[i].Ops[:j:j], n.Actors[i].Ops[j+1:]...)
			out = append(out, n)
		}
	}
	// simplify scripts
	for i := range c.Actors {
		for j := range c.Actors[i].Ops {
			sc := c.Actors[i].Ops[j].Script
			for k := range sc {
				if sc[k] == "y" {
					n := cloneCase(c)
					s2 := n.Actors[i].Ops[j].Script
					n.Actors[i].Ops[j].Script = append(s2[:k:k], s2[k+1:]...)
					out = append(out, n)
					break
				}
			}
		}
	}
	if c.Epochs > 1 {
		n := cloneCase(c)
		n.Epochs--
		n.MidStop = n.MidStop[:n.Epochs]
		for i := range n.Actors {
			for j := range n.Actors[i].Ops {
				if n.Actors[i].Ops[j].Ep >= n.Epochs {
					n.Actors[i].Ops[j].Ep = n.Epochs - 1
				}
			}
		}
		out = append(out, n)
	}
	if c.Workers > 1 {
		n := cloneCase(c)
		if c.Workers > 4 {
			n.Workers = 4
		} else {
			n.Workers--
		}
		out = append(out, n)
	}
	if c.LosePct > 0 {
		n := cloneCase(c)
		n.LosePct = 0
		out = append(out, n)
	}
	return out
}

func init() { register(CoreScenario{}) }
