package scen

import (
	"encoding/json"
	"errors"
	"fmt"
	"math/rand/v2"
	"os"
	"path/filepath"
	"reflect"
	"sort"
	"strconv"
	"strings"

	"github.com/dgraph-io/badger"
	res "github.com/jirenius/go-res"
	"github.com/jirenius/go-res/middleware"
	"github.com/jirenius/go-res/middleware/resbadger"

	"verif/sim/model"
	"verif/sim/sched"
)

// LegEvent is one scripted event of a legacy callback.
type LegEvent struct {
	Kind string          `json:"k"` // chg | add | rm | create | delete
	Key  string          `json:"key,omitempty"`
	Val  json.RawMessage `json:"v,omitempty"` // value; "\"<delete>\"" for a delete action
	Idx  int             `json:"idx,omitempty"`
	// CommitErr: the commit of the apply transaction is refused (disk error)
	CommitErr bool `json:"commit_err,omitempty"`
}

// LegOp is one callback on a resource.
type LegOp struct {
	RID    string     `json:"rid"`
	Events []LegEvent `json:"events"`
	Yield  int        `json:"y,omitempty"`
}

// LegCase is a case of the legacy middleware scenario.
type LegCase struct {
	Pkg      string      `json:"pkg"` // middleware | resbadger
	Default  bool        `json:"default"`
	Typed    bool        `json:"typed"`
	Workers  int         `json:"workers"`
	Rounds   [][][]LegOp `json:"rounds"` // round -> producer -> callbacks
	ImagePct int         `json:"image_pct"`
	IndexSet bool        `json:"index_set,omitempty"` // resbadger models maintain an index set in the apply transactions
	// IndexEmpty: resbadger models have an index set without any index
	IndexEmpty bool `json:"index_empty,omitempty"`
	// Map: resbadger models are served through a Map callback (it hides
	// property "b" and adds "mapped"); storage and Value are unmapped
	Map      bool     `json:"map,omitempty"`
	Optional []string `json:"optional"`
}

// LegacyScenario: the deprecated BadgerDB middleware serves the fold of the
// events it applied (C20).
type LegacyScenario struct{}

func (LegacyScenario) Name() string { return "legacy" }

var legRIDs = []string{"test.m.1", "test.m.2", "test.c.1", "test.c.2", "test.m.11", "test.c.11"}

func genLegEvents(r *rand.Rand, coll bool, n int) []LegEvent {
	var out []LegEvent
	for i := 0; i < n; i++ {
		var e LegEvent
		if coll {
			e.Kind = pick(r, "add", "add", "rm", "create", "delete", "chg")
		} else {
			e.Kind = pick(r, "chg", "chg", "chg", "create", "delete", "add")
		}
		switch e.Kind {
		case "chg":
			e.Key = pick(r, "a", "b", "c")
			e.Val = json.RawMessage(pick(r, `1`, `2`, `"x"`, `"y"`, `true`, `null`, `"<delete>"`, `{"rid":"test.m.2"}`))
			if chance(r, 18) {
				e.Key = "n"
				e.Val = json.RawMessage(pick(r, `0`, `0`, `7`, `"<delete>"`))
			}
		case "add":
			e.Idx = pick(r, 0, 0, 1, 2, 5)
			e.Val = json.RawMessage(pick(r, `"a"`, `"b"`, `1`, `{"rid":"test.m.1"}`))
		case "rm":
			e.Idx = pick(r, 0, 0, 1, 3)
		case "create":
			if coll {
				e.Val = json.RawMessage(pick(r, `["n"]`, `[]`, `["p","q"]`))
			} else {
				e.Val = json.RawMessage(pick(r, `{"a":9}`, `{}`, `{"b":"new","c":false}`))
			}
		}
		out = append(out, e)
	}
	return out
}

func (LegacyScenario) GenCase(r *rand.Rand, prop string) interface{} {
	c := &LegCase{Pkg: pick(r, "middleware", "resbadger"), Default: chance(r, 50), Typed: chance(r, 40), Workers: pick(r, 1, 2, 4)}
	c.ImagePct = pick(r, 0, 10, 30)
	c.IndexSet = c.Pkg == "resbadger" && chance(r, 50)
	c.Map = c.Pkg == "resbadger" && chance(r, 35)
	c.IndexEmpty = c.Pkg == "resbadger" && !c.IndexSet && chance(r, 30)
	for _, p := range []string{"conn.Publish", "event", "rawEvent", "worker.beforeCb", "worker.afterCb", "runWith.beforeLock", "handler", "handleRequest", "auto.lock", "badger.commit", "badger.view", "badger.update"} {
		if chance(r, 60) {
			c.Optional = append(c.Optional, p)
		}
	}
	for ri, nr := 0, 1+r.IntN(3); ri < nr; ri++ {
		var round [][]LegOp
		for pi, np := 0, 1+r.IntN(3); pi < np; pi++ {
			var ops []LegOp
			for i, n := 0, 1+r.IntN(3); i < n; i++ {
				rid := pick(r, legRIDs...)
				evs := genLegEvents(r, strings.HasPrefix(rid, "test.c."), 1+r.IntN(3))
				for k := range evs {
					evs[k].CommitErr = chance(r, 5)
				}
				ops = append(ops, LegOp{RID: rid, Events: evs, Yield: r.IntN(2)})
			}
			round = append(round, ops)
		}
		c.Rounds = append(c.Rounds, round)
	}
	return c
}

func (LegacyScenario) DecodeCase(raw json.RawMessage) (interface{}, error) {
	c := &LegCase{}
	err := json.Unmarshal(raw, c)
	return c, err
}

func (LegacyScenario) Shrinks(ci interface{}) []interface{} {
	c := ci.(*LegCase)
	clone := func() *LegCase {
		b, _ := json.Marshal(c)
		n := &LegCase{}
		json.Unmarshal(b, n)
		return n
	}
	var out []interface{}
	for ri := range c.Rounds {
		if len(c.Rounds) > 1 {
			n := clone()
			n.Rounds = append(n.Rounds[:ri:ri], n.Rounds[ri+1:]...)
			out = append(out, n)
		}
		for pi := range c.Rounds[ri] {
			if len(c.Rounds[ri]) > 1 {
				n := clone()
				n.Rounds[ri] = append(n.Rounds[ri][:pi:pi], n.Rounds[ri][pi+1:]...)
				out = append(out, n)
			}
			for oi := range c.Rounds[ri][pi] {
				if len(c.Rounds[ri][pi]) > 1 {
					n := clone()
					l := n.Rounds[ri][pi]
					n.Rounds[ri][pi] = append(l[:oi:oi], l[oi+1:]...)
					out = append(out, n)
				}
				for ei := range c.Rounds[ri][pi][oi].Events {
					if len(c.Rounds[ri][pi][oi].Events) > 1 {
						n := clone()
						l := n.Rounds[ri][pi][oi].Events
						n.Rounds[ri][pi][oi].Events = append(l[:ei:ei], l[ei+1:]...)
						out = append(out, n)
					}
				}
			}
		}
	}
	if c.ImagePct > 0 {
		n := clone()
		n.ImagePct = 0
		out = append(out, n)
	}
	return out
}

type legModelT struct {
	A interface{} `json:"a,omitempty"`
	B interface{} `json:"b,omitempty"`
	C interface{} `json:"c,omitempty"`
	// N has a concrete type and no omitempty: a value that went through the
	// Go type always has it, a stored raw value only after it was set
	N int `json:"n"`
}

// legState is the fold of the applied events for one resource.
type legState struct {
	present bool
	val     interface{} // map[string]interface{} or []interface{} (JSON values)
	// the event in flight (apply may have committed, the call not returned)
	inflight bool
	before   *legSnap
	after    *legSnap
}

type legSnap struct {
	present bool
	val     interface{}
}

func jsonClone(v interface{}) interface{} {
	b, _ := json.Marshal(v)
	var out interface{}
	json.Unmarshal(b, &out)
	return out
}

// dropNulls removes null-valued members of a JSON object (what a round trip
// through the typed model struct with omitempty fields does).
// projectTyped is what a model looks like after a round trip through
// legModelT: null properties are gone, n is always there.
// legMapped is what the Map callback makes of a stored model.
func legMapped(m map[string]interface{}) map[string]interface{} {
	out := map[string]interface{}{"mapped": 1}
	for k, v := range m {
		if k != "b" {
			out[k] = v
		}
	}
	return out
}

func projectTyped(v interface{}) interface{} {
	v = dropNulls(v)
	if m, ok := v.(map[string]interface{}); ok {
		if _, has := m["n"]; !has {
			m["n"] = 0
		}
	}
	return v
}

func dropNulls(v interface{}) interface{} {
	m, ok := v.(map[string]interface{})
	if !ok {
		return v
	}
	out := map[string]interface{}{}
	for k, x := range m {
		if x != nil {
			out[k] = x
		}
	}
	return out
}

func jsonStr(v interface{}) string {
	b, _ := json.Marshal(v)
	return string(b)
}

type legRun struct {
	c      *LegCase
	sim    *sched.Sim
	h      *Hist
	m      *miniSvc
	dir    string
	db     *badger.DB
	states map[string]*legState
	defM   map[string]interface{}
	defC   []interface{}
	images int
	evals  int
	lastEv map[string]string // per rid: digest of the last listener event
	// injected commit errors, by task name (guarded by h.mu)
	failCommit  map[string]bool
	commitFired map[string]bool
	commitErrs  int
}

func (lr *legRun) coll(rid string) bool { return strings.HasPrefix(rid, "test.c.") }

func (lr *legRun) def(rid string) interface{} {
	if !lr.c.Default {
		return nil
	}
	if lr.coll(rid) {
		return jsonClone(lr.defC)
	}
	return jsonClone(lr.defM)
}

// served is what get must return for the state: value, default, or missing.
func (lr *legRun) served(rid string, present bool, val interface{}) (interface{}, bool) {
	if present {
		return val, true
	}
	if d := lr.def(rid); d != nil {
		return d, true
	}
	return nil, false
}

// predict computes the outcome of an event on a state per the documented
// behaviour: ok=false means the event cannot be applied (nothing published,
// storage unchanged); changed=false means a change event that changes
// nothing (nothing published).
func (lr *legRun) predict(rid string, st *legState, e LegEvent) (next legSnap, ok, publish bool, old interface{}) {
	coll := lr.coll(rid)
	next = legSnap{present: st.present, val: jsonClone(st.val)}
	var v interface{}
	if len(e.Val) > 0 {
		json.Unmarshal(e.Val, &v)
	}
	switch e.Kind {
	case "chg":
		if coll {
			return next, false, false, nil
		}
		base, have := lr.served(rid, st.present, jsonClone(st.val))
		if !have {
			return next, false, false, nil
		}
		m, _ := base.(map[string]interface{})
		if m == nil {
			m = map[string]interface{}{}
		}
		oldm := map[string]interface{}{}
		cur, exists := m[e.Key]
		isDel := string(e.Val) == `"<delete>"`
		switch {
		case !exists && !isDel:
			m[e.Key] = v
			oldm[e.Key] = "<delete>"
		case exists && isDel:
			delete(m, e.Key)
			oldm[e.Key] = cur
		case exists && !reflect.DeepEqual(cur, v):
			m[e.Key] = v
			oldm[e.Key] = cur
		}
		if len(oldm) == 0 {
			return next, true, false, nil
		}
		return legSnap{present: true, val: m}, true, true, oldm
	case "add":
		if !coll || e.Idx < 0 {
			return next, false, false, nil
		}
		var l []interface{}
		if st.present {
			l, _ = jsonClone(st.val).([]interface{})
		} else if d := lr.def(rid); d != nil {
			l, _ = d.([]interface{})
		}
		if e.Idx > len(l) {
			return next, false, false, nil
		}
		l = append(l, nil)
		copy(l[e.Idx+1:], l[e.Idx:])
		l[e.Idx] = v
		return legSnap{present: true, val: l}, true, true, nil
	case "rm":
		if !coll || e.Idx < 0 {
			return next, false, false, nil
		}
		base, have := lr.served(rid, st.present, jsonClone(st.val))
		if !have {
			return next, false, false, nil
		}
		l, _ := base.([]interface{})
		if e.Idx >= len(l) {
			return next, false, false, nil
		}
		l = append(l[:e.Idx:e.Idx], l[e.Idx+1:]...)
		if l == nil {
			l = []interface{}{}
		}
		return legSnap{present: true, val: l}, true, true, nil
	case "create":
		if st.present || lr.c.Default {
			return next, false, false, nil
		}
		return legSnap{present: true, val: v}, true, true, nil
	case "delete":
		if !st.present {
			return next, true, true, nil
		}
		return legSnap{present: false}, true, true, st.val
	}
	return next, false, false, nil
}

func (LegacyScenario) Execute(sim *sched.Sim, ci interface{}, prop string, race bool) *Outcome {
	c := ci.(*LegCase)
	h := NewHist(sim)
	lr := &legRun{c: c, sim: sim, h: h, states: map[string]*legState{}, lastEv: map[string]string{}, failCommit: map[string]bool{}, commitFired: map[string]bool{}}
	lr.defM = map[string]interface{}{"a": "def"}
	if c.Typed {
		// the default of a typed model is a legModelT value
		lr.defM["n"] = 0
	}
	lr.defC = []interface{}{"d"}
	for _, rid := range legRIDs {
		lr.states[rid] = &legState{}
	}
	sim.Optional = map[string]bool{}
	for _, p := range c.Optional {
		sim.Optional[p] = true
	}
	sim.RoleOf = roleOf
	useCanon(sim)
	root := tempDBDir()
	defer os.RemoveAll(root)
	lr.dir = filepath.Join(root, "db")
	lr.db = openBadger(lr.dir)
	defer func() { lr.db.Close() }()
	res.VerifHook = sim.Yield
	badger.VerifHook = sim.Yield
	badger.VerifCommitFault = func() error {
		t := sim.Current()
		if t == nil {
			return nil
		}
		h.mu.Lock()
		defer h.mu.Unlock()
		if lr.failCommit[t.Name] {
			lr.failCommit[t.Name] = false
			lr.commitFired[t.Name] = true
			return errors.New("simulated disk error at commit")
		}
		return nil
	}
	defer func() { res.VerifHook = nil; badger.VerifHook = nil; badger.VerifCommitFault = nil }()

	build := func(db *badger.DB) *miniSvc {
		m := newMiniSvc(sim, h, "test", c.Workers)
		var mOpt, cOpt res.Option
		var mdef, cdef interface{}
		var mtyp, ctyp interface{}
		if c.Typed {
			mtyp, ctyp = legModelT{}, []interface{}(nil)
		}
		if c.Default {
			if c.Typed {
				mdef = legModelT{A: "def"}
			} else {
				mdef = lr.defM
			}
			cdef = lr.defC
		}
		if c.Pkg == "middleware" {
			mo := middleware.BadgerDB{DB: db}
			co := middleware.BadgerDB{DB: db}
			if mdef != nil {
				mo = mo.WithDefault(mdef)
				co = co.WithDefault(cdef)
			}
			if mtyp != nil {
				mo = mo.WithType(mtyp)
			}
			_ = ctyp
			mOpt, cOpt = mo, co
			m.svc.Handle("m.$id", res.Model, mOpt, res.Call("noop", func(r res.CallRequest) { r.OK(nil) }))
			m.svc.Handle("c.$id", res.Collection, cOpt, res.Call("noop", func(r res.CallRequest) { r.OK(nil) }))
		} else {
			bd := resbadger.BadgerDB{DB: db}
			mo := bd.Model()
			co := bd.Collection()
			if mdef != nil {
				mo = mo.WithDefault(mdef)
				co = co.WithDefault(cdef)
			}
			if mtyp != nil {
				mo = mo.WithType(mtyp)
			}
			if c.Map {
				mo = mo.WithMap(func(v interface{}) (interface{}, error) {
					sim.Probe("legacy.map")
					var m map[string]interface{}
					b, err := json.Marshal(v)
					if err == nil {
						err = json.Unmarshal(b, &m)
					}
					if err != nil {
						return nil, err
					}
					return legMapped(m), nil
				})
			}
			if c.IndexEmpty {
				mo = mo.WithIndexSet(&resbadger.IndexSet{})
			}
			if c.IndexSet {
				// the index key is the value of property "a"
				mo = mo.WithIndexSet(&resbadger.IndexSet{Indexes: []resbadger.Index{{Name: "ia", Key: func(v interface{}) []byte {
					var a interface{}
					switch x := v.(type) {
					case legModelT:
						a = x.A
					case map[string]interface{}:
						a = x["a"]
					}
					if a == nil {
						return nil
					}
					return []byte(fmt.Sprint(a))
				}}}})
			}
			m.svc.Handle("m.$id", mo, res.Call("noop", func(r res.CallRequest) { r.OK(nil) }))
			m.svc.Handle("c.$id", co, res.Call("noop", func(r res.CallRequest) { r.OK(nil) }))
		}
		listen := func(ev *res.Event) {
			var d string
			switch ev.Name {
			case "change":
				d = "change " + jsonStr(ev.OldValues)
			case "delete":
				d = "delete " + jsonStr(ev.Data)
			default:
				d = ev.Name
			}
			h.mu.Lock()
			lr.lastEv[ev.Resource.ResourceName()] = d
			h.mu.Unlock()
		}
		m.svc.AddListener("m.$id", listen)
		m.svc.AddListener("c.$id", listen)
		return m
	}
	m := build(lr.db)
	lr.m = m
	m.start()

	checkServed := func(where string) {
		inboxes := map[string]string{}
		for _, rid := range legRIDs {
			inboxes[rid] = m.request("get."+rid, nil)
		}
		m.quiesce()
		for _, rid := range legRIDs {
			lr.evals++
			st := lr.states[rid]
			rs := m.responses(inboxes[rid])
			if len(rs) != 1 {
				h.Violate("C20", "get-response-count", "", fmt.Sprintf("%s: get %s: %d responses", where, rid, len(rs)))
				continue
			}
			ce, err := model.ParseGet(rs[0])
			if err != nil {
				h.Violate("C20", "get-response", "", err.Error())
				continue
			}
			want, have := lr.served(rid, st.present, st.val)
			if c.Map && st.present && !lr.coll(rid) {
				// a stored model is served through the Map callback, which
				// is handed the value in its Go type
				w := jsonClone(want)
				if c.Typed {
					w = projectTyped(w)
				}
				if wm, ok := w.(map[string]interface{}); ok {
					want = legMapped(wm)
				}
			}
			got := "<missing>"
			if ce.Present {
				if ce.IsColl {
					got = jsonStr(ce.Coll)
				} else {
					got = jsonStr(ce.Model)
				}
			}
			wantS := "<missing>"
			if have {
				wantS = jsonStr(want)
			}
			if !model.JSONEqual(got, wantS) && got != wantS {
				h.Violate("C20", "served-value", "", fmt.Sprintf("%s (pkg %s default=%v typed=%v): get %s returns %s, the fold of the applied events is %s", where, c.Pkg, c.Default, c.Typed, rid, got, wantS))
			}
		}
	}
	checkServed("initially")
	imageFilter := func() {
		if c.ImagePct == 0 {
			return
		}
		if sim.Choose(100, "image") < c.ImagePct {
			lr.image(root)
		}
	}
	for ri, round := range c.Rounds {
		var tasks []*sched.Task
		for pi, ops := range round {
			ops := ops
			tasks = append(tasks, sim.Go(fmt.Sprintf("prod%d.%d", ri+1, pi+1), func() {
				for i := range ops {
					op := ops[i]
					sim.Yield("mut.op", strconv.Itoa(i))
					done := make(chan struct{})
					err := m.svc.With(op.RID, func(r res.Resource) {
						defer close(done)
						lr.callback(r, op)
					})
					if err != nil {
						continue
					}
					<-done
					sim.Yield("call.return", "with")
				}
			}))
		}
		for i := 0; ; i++ {
			stepBound(i, 1000000, "legacy round")
			sim.Wait()
			imageFilter()
			if !sim.Decide(nil) {
				break
			}
		}
		for _, t := range tasks {
			if !t.IsDone() {
				h.Violate("C20", "producer-stuck", "", "producer did not finish: "+describeParked(sim))
			}
		}
		checkServed(fmt.Sprintf("after round %d", ri+1))
	}
	// clean reopen: the served values equal the fold of all applied events
	if !m.shutdown() {
		h.Violate("C03", "shutdown-hang", "legacy", "service did not stop")
	}
	lr.db.Close()
	lr.db = openBadger(lr.dir)
	m = build(lr.db)
	lr.m = m
	m.start()
	checkServed("after reopening the database")
	m.shutdown()
	for _, p := range sim.Panics {
		h.Violate("C20", "panic", panicSignature(p), p)
	}
	out := &Outcome{Faults: map[string]int{"crash-image": lr.images, "commit-error": lr.commitErrs}, Evals: lr.evals + h.Evals}
	nops := 0
	for _, r := range c.Rounds {
		for _, p := range r {
			nops += len(p)
		}
	}
	out.Sample = map[string]interface{}{"pkg": c.Pkg, "default": c.Default, "typed": c.Typed, "rounds": len(c.Rounds), "callbacks": nops, "images": lr.images}
	for _, v := range h.Viol {
		if prop == "" || v.Property == prop {
			out.Violations = append(out.Violations, v)
		}
	}
	return out
}

// callback runs the scripted events of one With callback on the resource's
// group worker, comparing each with the fold model.
func (lr *legRun) callback(r res.Resource, op LegOp) {
	rid := op.RID
	st := lr.states[rid]
	for y := 0; y < op.Yield; y++ {
		lr.sim.Yield("handler", rid)
	}
	for _, e := range op.Events {
		next, ok, publish, old := lr.predict(rid, st, e)
		lr.h.mu.Lock()
		st.inflight = true
		st.before = &legSnap{present: st.present, val: jsonClone(st.val)}
		st.after = &legSnap{present: next.present, val: jsonClone(next.val)}
		delete(lr.lastEv, rid)
		lr.h.mu.Unlock()
		pubsBefore := lr.countPubs(rid)
		tname := ""
		if t := lr.sim.Current(); t != nil {
			tname = t.Name
		}
		if e.CommitErr {
			lr.h.mu.Lock()
			lr.failCommit[tname] = true
			lr.h.mu.Unlock()
		}
		panicked := lr.emit(r, e)
		lr.h.mu.Lock()
		lr.failCommit[tname] = false
		if lr.commitFired[tname] {
			// the apply transaction was refused: the event must behave like
			// one that cannot be applied (nothing published, nothing stored)
			lr.commitFired[tname] = false
			lr.commitErrs++
			ok = false
			st.after = &legSnap{present: st.present, val: jsonClone(st.val)}
		}
		lr.evals++
		pubs := lr.countPubs(rid) - pubsBefore
		listener := lr.lastEv[rid]
		if ok {
			st.present, st.val = next.present, next.val
		}
		st.inflight = false
		lr.h.mu.Unlock()
		desc := fmt.Sprintf("pkg %s default=%v typed=%v: event %s key=%q val=%s idx=%d on %s (state before: present=%v %s)", lr.c.Pkg, lr.c.Default, lr.c.Typed, e.Kind, e.Key, e.Val, e.Idx, rid, st.before.present, jsonStr(st.before.val))
		deleteMissing := e.Kind == "delete" && !st.before.present
		switch {
		case deleteMissing:
			// deleting a resource that is not stored is not among the events
			// the property calls inapplicable, and the two packages differ:
			// either it is announced (one message) or refused (panic, nothing)
			if !(pubs == 1 && !panicked) && !(pubs == 0 && panicked) {
				lr.h.Violate("C20", "delete-missing", "", fmt.Sprintf("published %d messages, panicked=%v; %s", pubs, panicked, desc))
			}
		case !ok && (pubs != 0 || !panicked):
			lr.h.Violate("C20", "inapplicable-event-had-effect", e.Kind, fmt.Sprintf("the event cannot be applied but published %d messages (panicked=%v); %s", pubs, panicked, desc))
		case ok && publish && (pubs != 1 || panicked):
			lr.h.Violate("C20", "applied-event-not-published", e.Kind, fmt.Sprintf("the event applies but published %d messages (panicked=%v); %s", pubs, panicked, desc))
		case ok && !publish && pubs != 0:
			lr.h.Violate("C20", "unchanged-event-published", e.Kind, fmt.Sprintf("the change alters nothing but published %d messages; %s", pubs, desc))
		}
		if ok && publish {
			switch e.Kind {
			case "chg":
				oldm, _ := old.(map[string]interface{})
				want := map[string]interface{}{}
				for k, v := range oldm {
					if v == "<delete>" {
						want[k] = map[string]interface{}{"action": "delete"}
					} else {
						want[k] = v
					}
				}
				if !model.JSONEqual(strings.TrimPrefix(listener, "change "), jsonStr(want)) {
					lr.h.Violate("C20", "listener-old-values", "", fmt.Sprintf("change listener got old values %s, the previous stored values are %s; %s", listener, jsonStr(want), desc))
				}
			case "delete":
				if lr.c.Typed {
					if lr.coll(rid) {
						old = dropNulls(jsonClone(old))
					} else {
						old = projectTyped(jsonClone(old))
					}
				}
				if st.before.present && !model.JSONEqual(strings.TrimPrefix(listener, "delete "), jsonStr(old)) {
					lr.h.Violate("C20", "listener-deleted-data", "", fmt.Sprintf("delete listener got %s, the previous stored value is %s; %s", listener, jsonStr(old), desc))
				}
			}
		}
	}
	// Value() equals the fold
	v, err := r.Value()
	want, have := lr.served(rid, st.present, st.val)
	if lr.c.Typed && have {
		if lr.coll(rid) {
			want = dropNulls(jsonClone(want))
		} else {
			want = projectTyped(jsonClone(want))
		}
	}
	lr.evals++
	switch {
	case have && err != nil:
		lr.h.Violate("C20", "value", "error", fmt.Sprintf("Value() of %s failed with %v, the fold is %s", rid, err, jsonStr(want)))
	case !have && err == nil:
		lr.h.Violate("C20", "value", "present", fmt.Sprintf("Value() of %s returned %s, the fold says the resource is missing", rid, jsonStr(v)))
	case have && !model.JSONEqual(jsonStr(v), jsonStr(want)):
		lr.h.Violate("C20", "value", "mismatch", fmt.Sprintf("pkg %s default=%v typed=%v: Value() of %s returned %s, the fold of the applied events is %s", lr.c.Pkg, lr.c.Default, lr.c.Typed, rid, jsonStr(v), jsonStr(want)))
	}
}

func (lr *legRun) countPubs(rid string) int {
	n := 0
	for _, p := range lr.m.conn.PubsSnapshot() {
		if strings.HasPrefix(p.Subject, "event."+rid+".") {
			n++
		}
	}
	return n
}

// emit calls the event method; it reports whether the call panicked (which
// is how an apply failure surfaces).
func (lr *legRun) emit(r res.Resource, e LegEvent) (panicked bool) {
	defer func() {
		if v := recover(); v != nil {
			panicked = true
		}
	}()
	var v interface{}
	if len(e.Val) > 0 {
		json.Unmarshal(e.Val, &v)
	}
	switch e.Kind {
	case "chg":
		if string(e.Val) == `"<delete>"` {
			v = res.DeleteAction
		}
		r.ChangeEvent(map[string]interface{}{e.Key: v})
	case "add":
		r.AddEvent(v, e.Idx)
	case "rm":
		r.RemoveEvent(e.Idx)
	case "create":
		r.CreateEvent(v)
	case "delete":
		r.DeleteEvent()
	}
	return false
}

// image takes a crash image at a decision point and checks that every
// resource holds the fold of the events whose call had returned, with the one
// in flight on that resource either included or not.
func (lr *legRun) image(root string) {
	live0 := beginFreeRun(lr.sim)
	defer endFreeRun(lr.sim, live0)
	img := filepath.Join(root, "img")
	os.RemoveAll(img)
	if err := copyDir(lr.dir, img); err != nil {
		panic(err)
	}
	defer os.RemoveAll(img)
	lr.images++
	db, err := badger.Open(badgerOpts(img))
	if err != nil {
		lr.h.Violate("C20", "reopen-failed", "", err.Error())
		return
	}
	defer db.Close()
	var rids []string
	for rid := range lr.states {
		rids = append(rids, rid)
	}
	sort.Strings(rids)
	for _, rid := range rids {
		st := lr.states[rid]
		lr.evals++
		var stored interface{}
		found := false
		db.View(func(txn *badger.Txn) error {
			item, err := txn.Get([]byte(rid))
			if err != nil {
				return nil
			}
			found = true
			b, _ := item.ValueCopy(nil)
			json.Unmarshal(b, &stored)
			return nil
		})
		match := func(s *legSnap) bool {
			if s == nil {
				return false
			}
			if !s.present {
				return !found
			}
			return found && model.JSONEqual(jsonStr(stored), jsonStr(s.val))
		}
		cur := &legSnap{present: st.present, val: st.val}
		okm := match(cur)
		if st.inflight {
			okm = match(st.before) || match(st.after)
		}
		if !okm {
			lr.h.Violate("C20", "crash-image-value", "", fmt.Sprintf("crash image: %s holds found=%v %s; fold of returned events: present=%v %s; in flight=%v before=%v after=%v", rid, found, jsonStr(stored), st.present, jsonStr(st.val), st.inflight, st.before, st.after))
		}
	}
}

func init() { register(LegacyScenario{}) }
