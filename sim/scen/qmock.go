package scen

import (
	"encoding/json"
	"fmt"
	"math/rand/v2"
	"net/url"
	"sort"
	"strconv"
	"strings"
	"sync"
	"time"

	res "github.com/jirenius/go-res"
	"github.com/jirenius/go-res/store"
	"github.com/jirenius/go-res/store/mockstore"

	"verif/sim/model"
	"verif/sim/sched"
	"verif/sim/simconn"
)

// QMockCase is a case of the query-events scenario (C14, the event path of
// store.QueryHandler): the query store is a reference implementation written
// for the harness whose query changes describe themselves by add and remove
// events instead of asking for a reset, which the badgerstore query store
// never does.
type QMockCase struct {
	Workers  int      `json:"workers"`
	QueryMs  int      `json:"query_ms"`
	Muts     []IdxMut `json:"muts"` // one mutator: query changes are delivered in mutation order
	Optional []string `json:"optional"`
	// Late: query requests are sent this many scheduler decisions after the
	// query event was seen (0: at once)
	Late int `json:"late,omitempty"`
}

// QMockScenario: clients of store.QueryHandler resources that are given events
// (add, remove, change) reproduce a fresh get (C14).
type QMockScenario struct{}

func (QMockScenario) Name() string { return "qmock" }

func (QMockScenario) GenCase(r *rand.Rand, prop string) interface{} {
	c := &QMockCase{Workers: pick(r, 1, 2, 4), QueryMs: pick(r, 50, 1000), Late: pick(r, 0, 0, 3, 10)}
	for _, p := range []string{"conn.Publish", "event", "rawEvent", "worker.beforeCb", "queryListener.recv", "runWith.beforeLock", "handleRequest", "auto.lock", "handler"} {
		if chance(r, 60) {
			c.Optional = append(c.Optional, p)
		}
	}
	for i, n := 0, 1+r.IntN(8); i < n; i++ {
		c.Muts = append(c.Muts, IdxMut{Kind: pick(r, "create", "create", "update", "update", "delete"), ID: pick(r, "1", "2", "3", "4"), K: pick(r, "a", "ab", "b", "ba", "aa", ""), V: i + 1})
	}
	return c
}

func (QMockScenario) DecodeCase(raw json.RawMessage) (interface{}, error) {
	c := &QMockCase{}
	err := json.Unmarshal(raw, c)
	return c, err
}

func (QMockScenario) Shrinks(ci interface{}) []interface{} {
	c := ci.(*QMockCase)
	var out []interface{}
	for i := range c.Muts {
		b, _ := json.Marshal(c)
		n := &QMockCase{}
		json.Unmarshal(b, n)
		n.Muts = append(n.Muts[:i:i], n.Muts[i+1:]...)
		out = append(out, n)
	}
	return out
}

// qmEntry is one stored value of the reference query store.
type qmEntry struct{ ID, K string }

func qmFilter(l []qmEntry, prefix string) []string {
	var out []string
	for _, e := range l {
		if strings.HasPrefix(e.K, prefix) {
			out = append(out, e.ID)
		}
	}
	if out == nil {
		out = []string{}
	}
	return out
}

func qmIndex(l []string, id string) int {
	for i, x := range l {
		if x == id {
			return i
		}
	}
	return -1
}

type qmHeld struct {
	rid     string // resource id, with query for query resources
	subject string
	payload string
	entry   model.CacheEntry
}

func (QMockScenario) Execute(sim *sched.Sim, ci interface{}, prop string, race bool) *Outcome {
	c := ci.(*QMockCase)
	h := NewHist(sim)
	sim.Optional = map[string]bool{}
	for _, p := range c.Optional {
		sim.Optional[p] = true
	}
	sim.RoleOf = roleOf
	useCanon(sim)
	res.VerifHook = sim.Yield
	defer func() { res.VerifHook = nil }()

	// the reference query store: values with a non-empty key, ordered by
	// (key, id); a query selects by key prefix
	var mu sync.Mutex
	data := map[string]string{}
	snapshot := func() []qmEntry {
		var l []qmEntry
		for id, k := range data {
			if k != "" {
				l = append(l, qmEntry{id, k})
			}
		}
		sort.Slice(l, func(i, j int) bool {
			if l[i].K != l[j].K {
				return l[i].K < l[j].K
			}
			return l[i].ID < l[j].ID
		})
		return l
	}
	qs := mockstore.NewQueryStore(func(q url.Values) (interface{}, error) {
		mu.Lock()
		defer mu.Unlock()
		return qmFilter(snapshot(), q.Get("p")), nil
	})
	m := newMiniSvc(sim, h, "test", c.Workers)
	m.svc.SetQueryEventDuration(time.Duration(c.QueryMs) * time.Millisecond)
	rid := func(id string) string { return "test.item." + id }
	ctrans := store.IDToRIDCollectionTransformer(rid)
	mtrans := store.IDToRIDModelTransformer(rid)
	affected := func(p res.Pattern, qc store.QueryChange) []string {
		seen := map[string]bool{}
		var out []string
		for _, v := range []interface{}{qc.Before(), qc.After()} {
			if v == nil {
				continue
			}
			k := v.(qmEntry).K
			for i := 1; i <= len(k); i++ {
				if pre := k[:i]; !seen[pre] {
					seen[pre] = true
					out = append(out, string(p.ReplaceTag("p", pre)))
				}
			}
		}
		return out
	}
	byParam := func(rname string, pp map[string]string) (url.Values, error) {
		return url.Values{"p": {pp["p"]}}, nil
	}
	m.svc.Handle("items", res.Collection, store.QueryHandler{QueryStore: qs, Transformer: ctrans})
	m.svc.Handle("itemsby.$p", res.Collection, store.QueryHandler{QueryStore: qs, Transformer: ctrans, RequestHandler: byParam, AffectedResources: affected})
	m.svc.Handle("search", res.Collection, store.QueryHandler{QueryStore: qs, Transformer: ctrans,
		QueryRequestHandler: func(rname string, pp map[string]string, q url.Values) (url.Values, string, error) {
			p := q.Get("p")
			return url.Values{"p": {p}}, "p=" + p, nil
		}})
	m.svc.Handle("under.$p", res.Collection, store.QueryHandler{QueryStore: qs, Transformer: ctrans,
		QueryRequestHandler: func(rname string, pp map[string]string, q url.Values) (url.Values, string, error) {
			x := q.Get("x")
			return url.Values{"p": {pp["p"] + x}}, "x=" + x, nil
		},
		AffectedResources: affected})
	// the same results as models keyed by id
	m.svc.Handle("index", res.Model, store.QueryHandler{QueryStore: qs, Transformer: mtrans})
	m.svc.Handle("indexby.$p", res.Model, store.QueryHandler{QueryStore: qs, Transformer: mtrans, RequestHandler: byParam, AffectedResources: affected})
	m.svc.Handle("lookup", res.Model, store.QueryHandler{QueryStore: qs, Transformer: mtrans,
		QueryRequestHandler: func(rname string, pp map[string]string, q url.Values) (url.Values, string, error) {
			p := q.Get("p")
			return url.Values{"p": {p}}, "p=" + p, nil
		}})
	m.start()

	held := []*qmHeld{
		{rid: "test.items", subject: "get.test.items"},
		{rid: "test.itemsby.a", subject: "get.test.itemsby.a"},
		{rid: "test.itemsby.b", subject: "get.test.itemsby.b"},
		{rid: "test.itemsby.ab", subject: "get.test.itemsby.ab"},
		{rid: "test.search?p=a", subject: "get.test.search", payload: `{"query":"p=a"}`},
		{rid: "test.search?p=", subject: "get.test.search", payload: `{"query":"p="}`},
		{rid: "test.search?p=b", subject: "get.test.search", payload: `{"query":"p=b"}`},
		{rid: "test.under.a?x=", subject: "get.test.under.a", payload: `{"query":"x="}`},
		{rid: "test.under.b?x=", subject: "get.test.under.b", payload: `{"query":"x="}`},
		{rid: "test.under.a?x=b", subject: "get.test.under.a", payload: `{"query":"x=b"}`},
		{rid: "test.index", subject: "get.test.index"},
		{rid: "test.indexby.a", subject: "get.test.indexby.a"},
		{rid: "test.lookup?p=a", subject: "get.test.lookup", payload: `{"query":"p=a"}`},
		{rid: "test.lookup?p=", subject: "get.test.lookup", payload: `{"query":"p="}`},
	}
	get := func(hr *qmHeld) (model.CacheEntry, bool) {
		inbox := m.request(hr.subject, []byte(hr.payload))
		m.quiesce()
		rs := m.responses(inbox)
		if len(rs) != 1 {
			h.Violate("C14", "get-failed", "qmock", fmt.Sprintf("get %s: %d responses", hr.rid, len(rs)))
			return model.CacheEntry{}, false
		}
		ce, err := model.ParseGet(rs[0])
		if err != nil || !ce.Present {
			h.Violate("C14", "get-failed", "qmock", fmt.Sprintf("get %s: %s", hr.rid, rs[0]))
			return ce, false
		}
		return ce, true
	}
	for _, hr := range held {
		hr.entry, _ = get(hr)
	}

	// the client: applies the events of ordinary resources, answers a query
	// event by a query request for each query it holds on that resource and
	// applies the events (or takes the new result) of the response
	seenPubs := 0
	type qreq struct {
		hr      *qmHeld
		subject string // announced subject
		inbox   string
		due     int
		sent    bool
	}
	var qreqs []*qreq
	notifications := 0
	decisions := 0
	apply := func(hr *qmHeld, event string, payload []byte, where string) {
		if what := hr.entry.Apply(event, payload); what != "" {
			h.Violate("C14", "inapplicable-event", "qmock", fmt.Sprintf("%s %s: %s event %s cannot be applied to %s: %s", where, hr.rid, event, payload, hr.entry.String(), what))
		}
	}
	react := func() {
		pubs := m.conn.PubsSnapshot()
		for _, p := range pubs[seenPubs:] {
			if !strings.HasPrefix(p.Subject, "event.") {
				if p.Subject == "system.reset" && seenPubs > 0 {
					h.Violate("C14", "unexpected-reset", "qmock", "the query store describes its changes by events, yet a system.reset was published")
				}
				continue
			}
			i := strings.LastIndexByte(p.Subject, '.')
			rname, ev := p.Subject[len("event."):i], p.Subject[i+1:]
			for _, hr := range held {
				if ev == "query" {
					j := strings.IndexByte(hr.rid, '?')
					if j < 0 || hr.rid[:j] != rname {
						continue
					}
					var qe struct {
						Subject string `json:"subject"`
					}
					json.Unmarshal(p.Data, &qe)
					notifications++
					qreqs = append(qreqs, &qreq{hr: hr, subject: qe.Subject, due: decisions + c.Late})
				} else if hr.rid == rname {
					notifications++
					apply(hr, ev, p.Data, "event on")
				}
			}
		}
		seenPubs = len(pubs)
		rest := qreqs[:0]
		busy := map[*qmHeld]bool{}
		for _, q := range qreqs {
			// one query event at a time per held result, as a gateway does:
			// the events of two responses must not be applied out of order
			if busy[q.hr] {
				rest = append(rest, q)
				continue
			}
			busy[q.hr] = true
			if !q.sent {
				if decisions >= q.due {
					m.nextID++
					q.inbox = "_INBOX.peer.q" + strconv.Itoa(m.nextID)
					m.mon.Inboxes[q.inbox] = simconn.InboxInfo{Query: true}
					j := strings.IndexByte(q.hr.rid, '?')
					pl, _ := json.Marshal(map[string]string{"query": q.hr.rid[j+1:]})
					if ds := m.conn.Inject(q.subject, q.inbox, pl); len(ds) == 0 {
						// the query event has expired: a real client would
						// fetch the resource anew
						sim.Probe("qmock.query-event-expired")
						q.hr.entry.Synced = false
						continue
					}
					q.sent = true
				}
				rest = append(rest, q)
				continue
			}
			rs := m.responses(q.inbox)
			if len(rs) == 0 {
				rest = append(rest, q)
				continue
			}
			var r struct {
				Result *struct {
					Events []struct {
						Event string          `json:"event"`
						Data  json.RawMessage `json:"data"`
					} `json:"events"`
					Model      map[string]interface{} `json:"model"`
					Collection *[]interface{}         `json:"collection"`
				} `json:"result"`
			}
			if json.Unmarshal(rs[0], &r) != nil || r.Result == nil {
				h.Violate("C14", "query-response", "qmock", fmt.Sprintf("query request for %s answered %s", q.hr.rid, rs[0]))
				continue
			}
			switch {
			case r.Result.Collection != nil:
				q.hr.entry = model.CacheEntry{Present: true, Synced: true, IsColl: true, Coll: *r.Result.Collection}
			case r.Result.Model != nil:
				q.hr.entry = model.CacheEntry{Present: true, Synced: true, Model: r.Result.Model}
			default:
				for _, ev := range r.Result.Events {
					sim.Probe("qmock.event-in-query-response")
					apply(q.hr, ev.Event, ev.Data, "query response for")
				}
			}
		}
		qreqs = rest
	}

	mut := sim.Go("mut1", func() {
		for i, mu2 := range c.Muts {
			sim.Yield("mut.op", strconv.Itoa(i))
			mu.Lock()
			before, existed := data[mu2.ID]
			lb := snapshot()
			switch mu2.Kind {
			case "create":
				if existed {
					mu.Unlock()
					continue
				}
				data[mu2.ID] = mu2.K
			case "update":
				if !existed {
					mu.Unlock()
					continue
				}
				data[mu2.ID] = mu2.K
			case "delete":
				if !existed {
					mu.Unlock()
					continue
				}
				delete(data, mu2.ID)
			}
			after, exists := data[mu2.ID]
			la := snapshot()
			mu.Unlock()
			if before == after && existed == exists || (!existed || before == "") && (!exists || after == "") {
				continue // the key in the index did not change
			}
			id := mu2.ID
			qc := mockstore.QueryChange{IDValue: id,
				OnAffectsQuery: func(q url.Values) bool {
					p := q.Get("p")
					return fmt.Sprint(qmFilter(lb, p)) != fmt.Sprint(qmFilter(la, p))
				},
				OnEvents: func(q url.Values) ([]store.ResultEvent, bool, error) {
					p := q.Get("p")
					fb, fa := qmFilter(lb, p), qmFilter(la, p)
					i, j := qmIndex(fb, id), qmIndex(fa, id)
					var evs []store.ResultEvent
					if i == j {
						return nil, false, nil
					}
					if i >= 0 {
						evs = append(evs, store.ResultEvent{Name: "remove", Idx: i, Value: id})
					}
					if j >= 0 {
						evs = append(evs, store.ResultEvent{Name: "add", Idx: j, Value: id})
					}
					return evs, false, nil
				}}
			if existed && before != "" {
				qc.BeforeValue = qmEntry{id, before}
			}
			if exists && after != "" {
				qc.AfterValue = qmEntry{id, after}
			}
			sim.Probe("qmock.query-change")
			qs.TriggerQueryChange(qc)
		}
	})
	for i := 0; ; i++ {
		stepBound(i, 1000000, "qmock")
		sim.Wait()
		react()
		decisions++
		if !sim.Decide(nil) {
			react()
			if m.conn.PendingInbound() == 0 && len(qreqs) == 0 {
				break
			}
			if m.conn.PendingInbound() == 0 {
				// only late query requests are left: let their time come
				decisions += c.Late
				react()
			}
		}
	}
	if !mut.IsDone() {
		h.Violate("C14", "mutator-stuck", "qmock", describeParked(sim))
	}
	// final: every result the client still holds equals a fresh get
	evals := 0
	for _, hr := range held {
		if !hr.entry.Synced {
			continue
		}
		evals++
		fresh, ok := get(hr)
		if !ok {
			continue
		}
		if !hr.entry.SameData(fresh) {
			mb, _ := json.Marshal(c.Muts)
			h.Violate("C14", "stale-query-result", "qmock", fmt.Sprintf("client holds %s = %s (%d notifications in the run), a fresh get returns %s; mutations: %s", hr.rid, hr.entry.String(), notifications, fresh.String(), mb))
		}
	}
	time.Sleep(time.Duration(c.QueryMs)*time.Millisecond + time.Second)
	m.quiesce()
	if !m.shutdown() {
		h.Violate("C03", "shutdown-hang", "qmock", "service did not stop")
	}
	for _, p := range sim.Panics {
		h.Violate("C14", "panic", panicSignature(p), p)
	}
	for _, l := range m.errLog {
		if strings.Contains(l, "error") || strings.Contains(l, "Error") {
			sim.Probe("qmock.error-logged")
		}
	}
	out := &Outcome{Faults: map[string]int{}, Evals: evals + h.Evals}
	out.Sample = map[string]interface{}{"mutations": len(c.Muts), "held_results": len(held), "notifications": notifications, "late": c.Late}
	for _, v := range h.Viol {
		if prop == "" || v.Property == prop {
			out.Violations = append(out.Violations, v)
		}
	}
	return out
}

func init() { register(QMockScenario{}) }
