package scen

import (
	"encoding/json"
	"fmt"
	"math/rand/v2"
	"net/url"
	"os"
	"strconv"
	"strings"
	"time"

	"github.com/dgraph-io/badger"
	res "github.com/jirenius/go-res"
	"github.com/jirenius/go-res/logger"
	"github.com/jirenius/go-res/store"
	"github.com/jirenius/go-res/store/badgerstore"
	"github.com/jirenius/go-res/store/mockstore"
	"github.com/jirenius/keylock"
	"github.com/jirenius/taskqueue"

	"verif/sim/sched"
	"verif/sim/simconn"
)

// The race scenario is the harness of C16. Its own code is kept invisible to
// the race detector (every function is //go:norace, harness synchronisation
// is wrapped in RaceDisable by the sched package, and no map or growing slice
// is shared between goroutines), so that the detector sees only the
// library's synchronisation. The one instrumented harness function is touch,
// through which handlers write per-group scratch memory without locks: a
// violation of C01 is then a data race as well.

// RaceCase is a case of the race scenario.
type RaceCase struct {
	Workers  int        `json:"workers"`
	InCh     int        `json:"in_ch"`
	Store    bool       `json:"store"`
	Epochs   int        `json:"epochs"`
	MidStop  []int      `json:"mid_stop"`
	Reqs     []string   `json:"reqs"`    // request subjects, injected by the scheduler
	Prods    [][]string `json:"prods"`   // producer scripts: with:<id> withgroup:<g> withres:<id> emit:<id> reset resetall token tokenreset
	Muts     [][]string `json:"muts"`    // store mutator scripts: create:<id>:<k> update:<id>:<k> delete:<id>
	Queries  int        `json:"queries"` // index queries by the querier task
	QueryMs  int        `json:"query_ms"`
	StdLog   bool       `json:"std_log"`
	Optional []string   `json:"optional"`
	// Mock: two tasks also write to a fresh mockstore, starting with its very
	// first transactions
	Mock [][]string `json:"mock,omitempty"`
	// HoldServe: while Serve is making its subscriptions it is only
	// scheduled when nothing else can run, so the producers' calls and the
	// callbacks they start fall into the starting phase
	HoldServe bool `json:"hold_serve,omitempty"`
	// FailStart: an event listener is declared for a pattern without
	// handler, so that every Serve call is refused at validation while the
	// producers call into the service
	FailStart bool `json:"fail_start,omitempty"`
	// Overlap: the next epoch is served by another goroutine as soon as
	// Shutdown returned, whether or not the previous Serve call has
	Overlap bool `json:"overlap,omitempty"`
}

// RaceScenario is the scenario of C16.
type RaceScenario struct{}

func (RaceScenario) Name() string { return "race" }

func (RaceScenario) GenCase(r *rand.Rand, prop string) interface{} {
	c := &RaceCase{Workers: pick(r, 1, 2, 3, 4, 8), InCh: pick(r, 2, 8, 1024), Store: chance(r, 50), Epochs: 1, QueryMs: pick(r, 50, 1000)}
	if chance(r, 40) {
		c.Overlap = chance(r, 50)
		c.Epochs = 2
	}
	for i := 0; i < c.Epochs; i++ {
		if chance(r, 60) {
			c.MidStop = append(c.MidStop, r.IntN(150))
		} else {
			c.MidStop = append(c.MidStop, -1)
		}
	}
	c.StdLog = chance(r, 30)
	c.HoldServe = chance(r, 30)
	c.FailStart = chance(r, 8)
	for _, p := range optionalPoints {
		if chance(r, 60) {
			c.Optional = append(c.Optional, p)
		}
	}
	for _, p := range storePoints {
		if chance(r, 50) {
			c.Optional = append(c.Optional, p)
		}
	}
	ids := []string{"1", "2", "3"}
	for i, n := 0, 3+r.IntN(10); i < n; i++ {
		id := pick(r, ids...)
		c.Reqs = append(c.Reqs, pick(r, "get.test.model."+id, "call.test.model."+id+".set", "call.test.model."+id+".query", "access.test.model."+id, "get.test.shared."+id, "call.test.shared."+id+".set", "get.test.par."+id, "call.test.par."+id+".set", "call.test.par."+id+".query", "call.test.par."+id+".bad", "get.test.item."+id, "get.test.items", "get.test.tag."+id, "call.test.tag."+id+".set"))
	}
	for pi, np := 0, 1+r.IntN(2); pi < np; pi++ {
		var sc []string
		for i, n := 0, 1+r.IntN(6); i < n; i++ {
			id := pick(r, ids...)
			sc = append(sc, pick(r, "with:"+id, "with:"+id, "withgroup:test.model."+id, "withgroup:shared", "withres:"+id, "emit:"+id, "emit:"+id, "reset", "resetall", "token", "tokenreset", "withq:"+id, "withtag:"+id, "withtag:"+id))
		}
		c.Prods = append(c.Prods, sc)
	}
	if c.Store {
		for mi, nm := 0, 1+r.IntN(2); mi < nm; mi++ {
			var sc []string
			for i, n := 0, 1+r.IntN(5); i < n; i++ {
				id := pick(r, ids...)
				sc = append(sc, pick(r, "create:"+id+":"+pick(r, "a", "b"), "update:"+id+":"+pick(r, "a", "b", "c"), "update:"+id+":"+pick(r, "a", "b"), "delete:"+id))
			}
			c.Muts = append(c.Muts, sc)
		}
		c.Queries = r.IntN(4)
	}
	if chance(r, 40) {
		for mi := 0; mi < 2; mi++ {
			var sc []string
			for i, n := 0, 1+r.IntN(4); i < n; i++ {
				id := pick(r, ids...)
				sc = append(sc, pick(r, "create:"+id+":a", "create:"+id+":b", "update:"+id+":c", "delete:"+id, "read:"+id))
			}
			c.Mock = append(c.Mock, sc)
		}
	}
	return c
}

func (RaceScenario) DecodeCase(raw json.RawMessage) (interface{}, error) {
	c := &RaceCase{}
	err := json.Unmarshal(raw, c)
	return c, err
}

func (RaceScenario) Shrinks(ci interface{}) []interface{} { return nil }

// touch is the only instrumented harness function.
func touch(p *int) { *p++ }

type raceItem struct {
	K string `json:"k"`
}

type raceRun struct {
	sim     *sched.Sim
	c       *RaceCase
	svc     *res.Service
	conns   [4]*simconn.Conn
	cur     int
	scratch [16]int
	qsubj   [32]string
	nq      int
	nextReq int
	nextQ   int
	started [4]bool
	servRet [4]bool // the Serve call of the epoch has returned
	shutRet [4]bool // the Shutdown of the epoch has returned
	epoch   int
}

//go:norace
func newQuietStdLogger(w *os.File) *logger.StdLogger {
	old := os.Stderr
	os.Stderr = w
	l := logger.NewStdLogger().SetTrace(true)
	os.Stderr = old
	return l
}

//go:norace
func setRaceHooks(f func(point, arg string)) {
	res.VerifHook = f
	badgerstore.VerifHook = f
	badger.VerifHook = f
	keylock.Hook = f
	taskqueue.Hook = f
}

//go:norace
func idIndex(id string) int {
	n, _ := strconv.Atoi(id)
	return n & 3
}

//go:norace
func (rr *raceRun) conn() *simconn.Conn { return rr.conns[rr.cur] }

//go:norace
func (rr *raceRun) setCur(i int) { rr.cur = i }

//go:norace
func (rr *raceRun) setServeReturned(i int) { rr.servRet[i] = true }

//go:norace
func (rr *raceRun) setShutdownReturned(i int) { rr.shutRet[i] = true }

// mayServe reports whether the Serve call of epoch i may be made.
//
//go:norace
func (rr *raceRun) mayServe(i int, overlap bool) bool {
	return i == 0 || rr.servRet[i-1] || (overlap && rr.shutRet[i-1])
}

//go:norace
func (rr *raceRun) curIdx() int { return rr.cur }

//go:norace
func (rr *raceRun) connAt(i int) *simconn.Conn { return rr.conns[i] }

//go:norace
func (rr *raceRun) isStarted(i int) bool { return rr.started[i] }

//go:norace
func (rr *raceRun) noteQuerySubject(p *simconn.PubRec) {
	if strings.HasSuffix(p.Subject, ".query") && strings.HasPrefix(p.Subject, "event.") {
		var ev struct {
			Subject string `json:"subject"`
		}
		// two query requests per query event (with different queries): with
		// a parallel handler they run on two workers at once
		for k := 0; k < 2; k++ {
			if json.Unmarshal(p.Data, &ev) == nil && ev.Subject != "" && rr.nq < len(rr.qsubj) {
				rr.qsubj[rr.nq] = ev.Subject
				rr.nq++
			}
		}
	}
	if p.Subject == "system.reset" {
		rr.started[rr.cur] = true
	}
}

//go:norace
func (RaceScenario) Execute(sim *sched.Sim, ci interface{}, prop string, race bool) *Outcome {
	c := ci.(*RaceCase)
	rr := &raceRun{sim: sim, c: c}
	sim.Optional = map[string]bool{}
	for _, p := range c.Optional {
		sim.Optional[p] = true
	}
	sim.RoleOf = roleOf
	useCanon(sim)
	setRaceHooks(sim.Yield)
	defer setRaceHooks(nil)

	svc := res.NewService("test")
	rr.svc = svc
	if c.StdLog {
		// StdLogger writes to whatever os.Stderr is when it is created
		devnull, _ := os.OpenFile(os.DevNull, os.O_WRONLY, 0)
		defer devnull.Close()
		l := newQuietStdLogger(devnull)
		svc.SetLogger(l)
	} else {
		svc.SetLogger(logger.NewMemLogger().SetTrace(true))
	}
	svc.SetWorkerCount(c.Workers).SetInChannelSize(c.InCh).SetQueryEventDuration(time.Duration(c.QueryMs) * time.Millisecond)
	handler := func(slot int, yield bool) func(r res.Resource) {
		return func(r res.Resource) {
			touch(&rr.scratch[slot])
			if yield {
				sim.Yield("handler", r.ResourceName())
			}
			touch(&rr.scratch[slot])
		}
	}
	// per-resource groups
	svc.Handle("model.$id",
		res.Access(func(r res.AccessRequest) { handler(idIndex(r.PathParam("id")), true)(r); r.AccessGranted() }),
		res.GetModel(func(r res.ModelRequest) {
			handler(idIndex(r.PathParam("id")), true)(r)
			r.Model(map[string]int{"v": 1})
		}),
		res.Call("set", func(r res.CallRequest) {
			r.Timeout(time.Duration(1000+idIndex(r.PathParam("id"))) * time.Millisecond)
			handler(idIndex(r.PathParam("id")), true)(r)
			r.ChangeEvent(map[string]interface{}{"v": 2})
			r.OK(nil)
		}),
		res.Call("query", func(r res.CallRequest) {
			slot := idIndex(r.PathParam("id"))
			handler(slot, false)(r)
			r.QueryEvent(func(qr res.QueryRequest) {
				touch(&rr.scratch[slot])
				if qr != nil {
					qr.Model(map[string]int{"q": 1})
				}
			})
			r.OK(nil)
		}),
	)
	// listeners run on the goroutine that emits the event, which for events
	// from foreign goroutines is not serialised with the resource's group:
	// they only read what they are given
	svc.AddListener("model.$id", func(ev *res.Event) {
		if ev.Resource.ResourceName() == "" || (ev.Name == "change" && ev.OldValues == nil && ev.NewValues == nil) {
			panic("listener: empty event")
		}
	})
	if c.FailStart {
		svc.AddListener("ghost.$id", func(ev *res.Event) {})
	}
	// a group built from a path parameter (slots 9..12)
	svc.Handle("tag.$id", res.Group("tg.${id}"),
		res.GetModel(func(r res.ModelRequest) {
			handler(9+idIndex(r.PathParam("id")), true)(r)
			r.Model(map[string]int{"t": 1})
		}),
		res.Call("set", func(r res.CallRequest) { handler(9+idIndex(r.PathParam("id")), true)(r); r.OK(nil) }),
	)
	// one shared group
	svc.Handle("shared.$id", res.Group("shared"),
		res.GetCollection(func(r res.CollectionRequest) { handler(8, true)(r); r.Collection([]int{1}) }),
		res.Call("set", func(r res.CallRequest) { handler(8, true)(r); r.AddEvent("x", 0); r.OK(nil) }),
	)
	// parallel handlers share nothing
	svc.Handle("par.$id", res.Parallel(true),
		res.GetModel(func(r res.ModelRequest) {
			r.Timeout(2 * time.Second)
			sim.Yield("handler", "par")
			r.Model(map[string]int{"p": 1})
		}),
		res.Call("set", func(r res.CallRequest) { r.OK(nil) }),
		// a value that cannot be encoded: the error path of the response
		// encoder runs, then other workers encode their responses
		res.Call("bad", func(r res.CallRequest) { r.OK(map[string]interface{}{"c": make(chan int)}) }),
		res.Call("query", func(r res.CallRequest) {
			r.QueryEvent(func(qr res.QueryRequest) {
				if qr != nil {
					sim.Yield("handler", "parq")
					qr.Model(map[string]string{"q": qr.Query()})
				}
			})
			r.OK(nil)
		}),
	)
	var db *badger.DB
	var st *badgerstore.Store
	var qs *badgerstore.QueryStore
	if c.Store {
		dir := tempDBDir()
		defer os.RemoveAll(dir)
		db = openBadger(dir)
		defer db.Close()
		st = badgerstore.NewStore(db).SetType(raceItem{}).SetPrefix("it")
		qs = badgerstore.NewQueryStore(st, func(qs *badgerstore.QueryStore, q url.Values) (*badgerstore.IndexQuery, error) {
			return &badgerstore.IndexQuery{Index: qs.Index("k"), KeyPrefix: []byte(q.Get("p")), Limit: -1}, nil
		})
		qs.AddIndex(badgerstore.Index{Name: "k", Key: func(v interface{}) []byte { return []byte(v.(raceItem).K) }})
		svc.Handle("item.$id", res.Model, store.Handler{Store: st, Transformer: store.IDTransformer("id", nil)})
		svc.Handle("items", res.Collection, store.QueryHandler{QueryStore: qs, Transformer: store.IDToRIDCollectionTransformer(func(id string) string { return "test.item." + id })})
	} else {
		svc.Handle("item.$id", res.GetModel(func(r res.ModelRequest) { r.NotFound() }))
		svc.Handle("items", res.GetCollection(func(r res.CollectionRequest) { r.Collection([]int{}) }))
	}
	// an in-memory store nobody has written to yet
	// (no handler serves it: the store holds one lock for a whole
	// transaction, and a change callback that parked at a yield point inside
	// it would block the other writer in a way the bubble cannot see)
	mock := mockstore.NewStore()
	for i := 0; i < c.Epochs && i < len(rr.conns); i++ {
		cn := simconn.New(sim)
		cn.OnPublish = rr.noteQuerySubject
		rr.conns[i] = cn
	}
	var serves []*sched.Task
	for i := 0; i < c.Epochs && i < len(rr.conns); i++ {
		i := i
		name := "serve"
		if i > 0 {
			name = "serve" + strconv.Itoa(i+1)
		}
		serves = append(serves, sim.Go(name, func() {
			sim.Yield("serve.wait", strconv.Itoa(i))
			for try := 0; try < 50; try++ {
				rr.setCur(i)
				err := svc.Serve(rr.connAt(i))
				sim.Yield("call.return", "serve")
				if err == nil || err.Error() != "res: service is not stopped" {
					break
				}
			}
			rr.setServeReturned(i)
		}))
	}
	life := sim.Go("life", func() {
		for i := 0; i < c.Epochs; i++ {
			for try := 0; try < 30 && !(c.FailStart && try > 1); try++ {
				sim.Yield("life.wait", strconv.Itoa(i))
				err := svc.Shutdown()
				sim.Yield("call.return", "shutdown")
				if err == nil {
					rr.setShutdownReturned(i)
					break
				}
			}
		}
	})
	var tasks []*sched.Task
	for pi := range c.Prods {
		script := c.Prods[pi]
		tasks = append(tasks, sim.Go("prod"+strconv.Itoa(pi+1), func() { rr.producer(script) }))
	}
	for mi := range c.Mock {
		script := c.Mock[mi]
		tasks = append(tasks, sim.Go("mock"+strconv.Itoa(mi+1), func() { rr.mockMutator(mock, script) }))
	}
	if c.Store {
		for mi := range c.Muts {
			script := c.Muts[mi]
			tasks = append(tasks, sim.Go("mut"+strconv.Itoa(mi+1), func() { rr.mutator(st, script) }))
		}
		if c.Queries > 0 {
			n := c.Queries
			tasks = append(tasks, sim.Go("querier", func() {
				for i := 0; i < n; i++ {
					sim.Yield("query.next", "")
					qs.Query(url.Values{"p": {pick2(i)}})
					if i%2 == 1 {
						qs.Flush()
					}
				}
			}))
		}
	}
	sim.AddProvider(func() []sched.Action {
		var acts []sched.Action
		cn := rr.conn()
		if cn.PendingInbound() > 0 {
			acts = append(acts, sched.Action{Label: "deliver", Do: func() { cn.DeliverHead(false) }})
		}
		if rr.nextReq < len(c.Reqs) && rr.isStarted(rr.curIdx()) {
			acts = append(acts, sched.Action{Label: "send", Do: func() {
				subj := c.Reqs[rr.nextReq]
				rr.nextReq++
				cn.Inject(subj, "_INBOX.peer."+strconv.Itoa(rr.nextReq), []byte(`{"cid":"c1"}`))
			}})
		}
		if rr.nextQ < rr.nq {
			acts = append(acts, sched.Action{Label: "sendq", Do: func() {
				subj := rr.qsubj[rr.nextQ]
				rr.nextQ++
				cn.Inject(subj, "_INBOX.peer.q"+strconv.Itoa(rr.nextQ), []byte(`{"query":"a=`+strconv.Itoa(rr.nextQ)+`"}`))
			}})
		}
		return acts
	})
	idle := 0
	steps := 0
	for ; steps < 20000; steps++ {
		sim.Wait()
		allDone := life.IsDone()
		for _, t := range serves {
			if !t.IsDone() {
				allDone = false
			}
		}
		for _, t := range tasks {
			if !t.IsDone() {
				allDone = false
			}
		}
		filter := func(t *sched.Task) bool {
			if t.Point == "serve.wait" {
				ep, _ := strconv.Atoi(t.Arg)
				return rr.mayServe(ep, c.Overlap)
			}
			if t != life || t.Point != "life.wait" {
				return true
			}
			ep, _ := strconv.Atoi(t.Arg)
			ms := -1
			if ep < len(c.MidStop) {
				ms = c.MidStop[ep]
			}
			return ms >= 0 && int(sim.Step()) >= ms && rr.isStarted(ep)
		}
		acts := sim.Enabled(filter)
		if c.HoldServe && len(acts) > 1 {
			var rest []sched.Action
			for _, a := range acts {
				if !strings.Contains(a.Label, "@conn.Subscribe(") {
					rest = append(rest, a)
				}
			}
			if len(rest) > 0 {
				acts = rest
			}
		}
		if len(acts) == 0 {
			if allDone {
				break
			}
			if life.IsParked() && life.Point == "life.wait" {
				// quiescent: clean shutdown
				if idle < 4 {
					time.Sleep(time.Second) // let query events expire first
					idle++
					continue
				}
				idle = 0
				sim.Perform(sim.TaskAction(life))
				continue
			}
			if idle < 70 {
				time.Sleep(time.Second)
				idle++
				continue
			}
			break
		}
		idle = 0
		sim.Perform(sim.Pick(acts))
	}
	out := &Outcome{Faults: map[string]int{}, Evals: steps}
	out.Sample = c
	return out
}

//go:norace
func pick2(i int) string {
	if i%2 == 0 {
		return ""
	}
	return "a"
}

//go:norace
func (rr *raceRun) producer(script []string) {
	sim := rr.sim
	svc := rr.svc
	for i, op := range script {
		sim.Yield("actor.op", strconv.Itoa(i))
		arg := ""
		if j := strings.IndexByte(op, ':'); j >= 0 {
			op, arg = op[:j], op[j+1:]
		}
		slot := idIndex(arg)
		switch op {
		case "with":
			svc.With("test.model."+arg, func(r res.Resource) {
				touch(&rr.scratch[slot])
				sim.Yield("handler", "with")
				touch(&rr.scratch[slot])
				r.ChangeEvent(map[string]interface{}{"w": 1})
			})
		case "withtag":
			svc.With("test.tag."+arg, func(r res.Resource) {
				touch(&rr.scratch[9+slot])
				sim.Yield("handler", "withtag")
				touch(&rr.scratch[9+slot])
			})
		case "withq":
			svc.With("test.model."+arg, func(r res.Resource) {
				touch(&rr.scratch[slot])
				r.QueryEvent(func(qr res.QueryRequest) {
					touch(&rr.scratch[slot])
					if qr != nil {
						qr.ChangeEvent(map[string]interface{}{"q": 2})
					}
				})
			})
		case "withgroup":
			g := arg
			s := 8
			if strings.HasPrefix(g, "test.model.") {
				s = idIndex(g[len("test.model."):])
			}
			svc.WithGroup(g, func(*res.Service) {
				touch(&rr.scratch[s])
				sim.Yield("handler", "withgroup")
				touch(&rr.scratch[s])
			})
		case "withres":
			if r, err := svc.Resource("test.model." + arg); err == nil {
				svc.WithResource(r, func() { touch(&rr.scratch[slot]) })
			}
		case "emit":
			// events from a foreign goroutine, as store change callbacks do
			if r, err := svc.Resource("test.model." + arg); err == nil {
				r.ChangeEvent(map[string]interface{}{"e": i})
			}
		case "reset":
			svc.Reset([]string{"test.model.1"}, nil)
		case "resetall":
			svc.ResetAll()
		case "token":
			svc.TokenEvent("cid1", map[string]int{"t": 1})
			svc.TokenEventWithID("cid1", "tid1", nil)
		case "tokenreset":
			svc.TokenReset("auth.test.renew", "tid1")
		}
		sim.Yield("call.return", op)
	}
}

//go:norace
func (rr *raceRun) mutator(st *badgerstore.Store, script []string) {
	for i, op := range script {
		rr.sim.Yield("mut.op", strconv.Itoa(i))
		parts := strings.Split(op, ":")
		wt := st.Write(parts[1])
		switch parts[0] {
		case "create":
			wt.Create(raceItem{K: parts[2]})
		case "update":
			wt.Update(raceItem{K: parts[2]})
		case "delete":
			wt.Delete()
		}
		wt.Close()
	}
}

func (rr *raceRun) mockMutator(st *mockstore.Store, script []string) {
	for i, op := range script {
		rr.sim.Yield("mut.op", strconv.Itoa(i))
		parts := strings.Split(op, ":")
		if parts[0] == "read" {
			rt := st.Read(parts[1])
			rt.Exists()
			rt.Value()
			rt.Close()
			continue
		}
		wt := st.Write(parts[1])
		switch parts[0] {
		case "create":
			wt.Create(raceItem{K: parts[2]})
		case "update":
			wt.Update(raceItem{K: parts[2]})
		case "delete":
			wt.Delete()
		}
		wt.Close()
	}
}

var _ = fmt.Sprint

func init() { register(RaceScenario{}) }
