package scen

import (
	"bytes"
	"encoding/json"
	"errors"
	"fmt"
	"io"
	"math/rand/v2"
	"os"
	"path/filepath"
	"runtime"
	"sort"
	"strconv"
	"strings"

	"github.com/dgraph-io/badger"
	"github.com/jirenius/go-res/store/badgerstore"
	"github.com/jirenius/keylock"
	"github.com/jirenius/taskqueue"

	"verif/sim/sched"
)

// CrashOp is one operation of the sequential crash workload.
type CrashOp struct {
	Kind string `json:"k"` // create | update | delete | init | rebuild | flush | restart
	ID   string `json:"id,omitempty"`
	K    string `json:"key,omitempty"`
	N    string `json:"n,omitempty"`
	V    int    `json:"v,omitempty"`
	// CommitErr: the commit of this mutation is refused (disk error)
	CommitErr bool `json:"commit_err,omitempty"`
	// ReadFirst: the write transaction reads the value before it mutates;
	// Back: the same transaction then writes the value it had at its start
	ReadFirst bool `json:"read_first,omitempty"`
	Back      bool `json:"back,omitempty"`
	// RaceID (init only): while Init runs, another goroutine creates this id
	// with value RaceV; whoever commits first wins, and an acknowledged
	// Create is never replaced by a seed
	RaceID string `json:"race_id,omitempty"`
	RaceV  int    `json:"race_v,omitempty"`
}

// CrashCase is a case of the crash scenario.
type CrashCase struct {
	Prefix    string     `json:"prefix"`
	Seeds     []IdxMut   `json:"seeds"`
	Ops       []CrashOp  `json:"ops"`
	SamplePct int        `json:"sample_pct"` // share of hook occurrences at which a crash image is taken
	Torn      bool       `json:"torn"`
	Queries   []IdxQuery `json:"queries"`
	// SmallTxn opens BadgerDB with 4 KiB tables, which limits a transaction
	// to five entries: RebuildIndexes on more than two values is refused
	// with ErrTxnTooBig (and must then not claim success)
	SmallTxn bool `json:"small_txn,omitempty"`
}

// CrashScenario: acknowledged store writes survive a crash; Init seeds once;
// indexes rebuild (C12).
type CrashScenario struct{}

func (CrashScenario) Name() string { return "crash" }

// (p1 and b.a begin with characters of the store prefixes "pre." and "a.b.")
var crashIDs = []string{"1", "2", "s1", "s2", "s3", "s4", "s5", "s6", "s7", "s8", "s9", "p1", "b.a"}

func (CrashScenario) GenCase(r *rand.Rand, prop string) interface{} {
	c := &CrashCase{Prefix: pick(r, "", "pre", "pre", "a.b")}
	c.SamplePct = pick(r, 25, 40, 100)
	if os.Getenv("VERIF_TIER") == "thorough" {
		c.SamplePct = 100
	}
	c.Torn = chance(r, 50)
	for i, n := 0, r.IntN(4); i < n; i++ {
		c.Seeds = append(c.Seeds, IdxMut{ID: "s" + strconv.Itoa(i+1), K: pick(r, idxKeys...), N: pick(r, "x", "y", ""), V: 100 + i})
	}
	v := 0
	inits := 0
	for i, n := 0, 3+r.IntN(8); i < n; i++ {
		v++
		op := CrashOp{ID: pick(r, crashIDs...), K: pick(r, idxKeys...), N: pick(r, "x", "y", "xy", ""), V: v}
		switch k := r.IntN(100); {
		case k < 25:
			op.Kind = "create"
		case k < 50:
			op.Kind = "update"
		case k < 65:
			op.Kind = "delete"
		case k < 80:
			op.Kind = "init"
			inits++
		case k < 87:
			op.Kind = "rebuild"
		case k < 93:
			op.Kind = "flush"
		default:
			op.Kind = "restart"
		}
		if k := op.Kind; (k == "create" || k == "update" || k == "delete" || k == "init") && chance(r, 8) {
			op.CommitErr = true
		}
		if k := op.Kind; k == "update" || k == "delete" {
			op.ReadFirst = chance(r, 40)
			op.Back = chance(r, 25)
		}
		if op.Kind == "init" && chance(r, 40) {
			op.RaceID, op.RaceV = pick(r, "s1", "s1", "s2", "1"), 900+v
		}
		c.Ops = append(c.Ops, op)
	}
	if inits == 0 && chance(r, 70) {
		at := r.IntN(len(c.Ops) + 1)
		c.Ops = append(c.Ops[:at:at], append([]CrashOp{{Kind: "init"}}, c.Ops[at:]...)...)
	}
	c.SmallTxn = chance(r, 15)
	if c.SmallTxn && chance(r, 60) {
		// more seeds than one such transaction holds: Init then fails as a
		// whole with ErrTxnTooBig - and must not seed in instalments instead
		// (seeded change C12y)
		for i, n := len(c.Seeds), 6+r.IntN(4); i < n; i++ {
			c.Seeds = append(c.Seeds, IdxMut{ID: "s" + strconv.Itoa(i+1), K: pick(r, idxKeys...), N: pick(r, "x", "y", ""), V: 100 + i})
		}
	}
	for i := 0; i < 3; i++ {
		c.Queries = append(c.Queries, genIdxQuery(r))
	}
	return c
}

func (CrashScenario) DecodeCase(raw json.RawMessage) (interface{}, error) {
	c := &CrashCase{}
	err := json.Unmarshal(raw, c)
	return c, err
}

func (CrashScenario) Shrinks(ci interface{}) []interface{} {
	c := ci.(*CrashCase)
	clone := func() *CrashCase {
		b, _ := json.Marshal(c)
		n := &CrashCase{}
		json.Unmarshal(b, n)
		return n
	}
	var out []interface{}
	for i := range c.Ops {
		n := clone()
		n.Ops = append(n.Ops[:i:i], n.Ops[i+1:]...)
		out = append(out, n)
	}
	for i := range c.Seeds {
		n := clone()
		n.Seeds = append(n.Seeds[:i:i], n.Seeds[i+1:]...)
		out = append(out, n)
	}
	if c.Torn {
		n := clone()
		n.Torn = false
		out = append(out, n)
	}
	return out
}

type flight struct {
	kind     string
	id       string
	old, new *idxRec
}

type crashRun struct {
	c       *CrashCase
	sim     *sched.Sim
	h       *Hist
	dir     string
	db      *badger.DB
	st      *badgerstore.Store
	qs      *badgerstore.QueryStore
	acked   map[string]*idxRec
	initAck bool // some Init call has returned nil
	fl      *flight
	images  int
	torn    int
	evals   int
	occ     int
	safeOff int64
	refused int // RebuildIndexes calls refused with ErrTxnTooBig
	gen     int
	// racing: the Create racing an Init is between its invocation and its
	// return (no crash images then: the oracle knows one mutation in flight)
	racing    bool
	conflicts int
}

func copyDir(src, dst string) error {
	os.MkdirAll(dst, 0o755)
	ents, err := os.ReadDir(src)
	if err != nil {
		return err
	}
	for _, e := range ents {
		if e.IsDir() {
			continue
		}
		in, err := os.Open(filepath.Join(src, e.Name()))
		if err != nil {
			return err
		}
		out, err := os.Create(filepath.Join(dst, e.Name()))
		if err != nil {
			in.Close()
			return err
		}
		_, err = io.Copy(out, in)
		in.Close()
		out.Close()
		if err != nil {
			return err
		}
	}
	return nil
}

// vlogWriteOffset returns the newest value log file and the offset after its
// last non-zero byte.
func vlogWriteOffset(dir string) (string, int64) {
	ents, _ := os.ReadDir(dir)
	var names []string
	for _, e := range ents {
		if strings.HasSuffix(e.Name(), ".vlog") {
			names = append(names, e.Name())
		}
	}
	if len(names) == 0 {
		return "", 0
	}
	sort.Strings(names)
	p := filepath.Join(dir, names[len(names)-1])
	b, err := os.ReadFile(p)
	if err != nil {
		return p, 0
	}
	i := len(b)
	for i > 0 && b[i-1] == 0 {
		i--
	}
	return p, int64(i)
}

func (cr *crashRun) open(dir string) {
	cr.dir = dir
	cr.db = cr.openDB(dir)
	cr.st = badgerstore.NewStore(cr.db).SetPrefix(cr.c.Prefix).SetType(idxRec{})
	cr.qs = newIdxQueryStore(cr.st)
	cr.gen++
}

func (cr *crashRun) opts(dir string) badger.Options {
	o := badgerOpts(dir)
	if cr.c.SmallTxn {
		// no compaction runs while the clock stands still: do not stall on
		// level zero tables
		o = o.WithMaxTableSize(4 << 10).WithNumLevelZeroTables(1000).WithNumLevelZeroTablesStall(2000)
	}
	return o
}

func (cr *crashRun) openDB(dir string) *badger.DB {
	db, err := badger.Open(cr.opts(dir))
	if err != nil {
		panic(fmt.Sprintf("badger open: %v", err))
	}
	return db
}

// rebuildRefused reports whether RebuildIndexes failed because BadgerDB
// refused the transaction as too big: a legitimate failure (nothing is
// claimed about the indexes then), counted as a fault.
func (cr *crashRun) rebuildRefused(err error) bool {
	if err != nil && errors.Is(err, badger.ErrTxnTooBig) {
		cr.refused++
		return true
	}
	return false
}

func (cr *crashRun) seedsCB(add func(id string, v interface{})) error {
	for _, s := range cr.c.Seeds {
		add(s.ID, idxRec{K: s.K, N: s.N, V: s.V})
	}
	return nil
}

func (CrashScenario) Execute(sim *sched.Sim, ci interface{}, prop string, race bool) *Outcome {
	c := ci.(*CrashCase)
	h := NewHist(sim)
	cr := &crashRun{c: c, sim: sim, h: h, acked: map[string]*idxRec{}}
	sim.Optional = nil // all points on: every instrumented point is a crash point
	sim.RoleOf = roleOf
	// Init hands its seeds to OnChange in Go map iteration order, which the
	// simulator cannot control: seed ids are blanked in the trace, and the
	// oracle does not depend on that order
	sim.Canon = func(a string) string {
		if len(a) == 2 && a[0] == 's' {
			return "s?"
		}
		return a
	}
	badgerstore.VerifHook = sim.Yield
	badger.VerifHook = sim.Yield
	keylock.Hook = sim.Yield
	taskqueue.Hook = sim.Yield
	defer func() { badgerstore.VerifHook = nil; badger.VerifHook = nil; keylock.Hook = nil; taskqueue.Hook = nil }()
	root := tempDBDir()
	defer os.RemoveAll(root)
	cr.open(filepath.Join(root, "g0"))
	defer func() { cr.db.Close() }()

	// injected disk errors: the commit of a flagged mutation of the workload
	// is refused; the mutation must then fail and never show up in an image
	failCommit, commitFired, commitErrs := false, false, 0
	badger.VerifCommitFault = func() error {
		if t := sim.Current(); t != nil && t.Name == "workload" && failCommit {
			failCommit = false
			commitFired = true
			return errors.New("simulated disk error at commit")
		}
		return nil
	}
	defer func() { badger.VerifCommitFault = nil }()
	restartReq := false
	w := sim.Go("workload", func() {
		for i, op := range c.Ops {
			sim.Yield("crash.op", strconv.Itoa(i))
			switch op.Kind {
			case "create", "update", "delete":
				var nw *idxRec
				if op.Kind != "delete" {
					nw = &idxRec{K: op.K, N: op.N, V: op.V}
				}
				first := cr.acked[op.ID]
				wt := cr.st.Write(op.ID)
				if op.ReadFirst {
					wt.Value()
				}
				// one mutation of the open write transaction: in flight,
				// then acknowledged (or not)
				step := func(kind string, nw *idxRec, fail bool) {
					cr.fl = &flight{kind: kind, id: op.ID, old: cr.acked[op.ID], new: nw}
					var err error
					failCommit = fail
					switch kind {
					case "create":
						err = wt.Create(*nw)
					case "update":
						err = wt.Update(*nw)
					case "delete":
						err = wt.Delete()
					}
					failCommit = false
					if commitFired {
						commitFired = false
						commitErrs++
						h.Evals++
						if err == nil {
							h.Violate("C12", "failed-commit-acknowledged", kind, fmt.Sprintf("%s of id %q returned success although its commit was refused", kind, op.ID))
						}
					}
					if err == nil {
						if nw == nil {
							delete(cr.acked, op.ID)
						} else {
							cr.acked[op.ID] = nw
						}
					}
					cr.fl = nil
					_, cr.safeOff = vlogWriteOffset(cr.dir)
				}
				step(op.Kind, nw, op.CommitErr)
				if op.Back && first != nil {
					// the same transaction puts the first value back
					sim.Probe("crash.back")
					b := *first
					step(either(cr.acked[op.ID] == nil, "create", "update"), &b, false)
				}
				wt.Close()
				cr.fl = nil
				_, cr.safeOff = vlogWriteOffset(cr.dir)
			case "init":
				var racer *sched.Task
				raced := false
				if op.RaceID != "" {
					id, val, st := op.RaceID, idxRec{K: op.K, N: op.N, V: op.RaceV}, cr.st
					racer = sim.Go("racer"+strconv.Itoa(i), func() {
						sim.Yield("mut.op", "race")
						cr.racing, raced = true, true
						wt := st.Write(id)
						err := wt.Create(val)
						wt.Close()
						if err == nil {
							sim.Probe("crash.race-create-acked")
							v := val
							cr.acked[id] = &v
							_, cr.safeOff = vlogWriteOffset(cr.dir)
						}
						cr.racing = false
					})
				}
				cr.fl = &flight{kind: "init"}
				failCommit = op.CommitErr
				err := cr.st.Init(cr.seedsCB)
				failCommit = false
				refused := commitFired
				if commitFired {
					commitFired = false
					commitErrs++
					h.Evals++
					if err == nil {
						h.Violate("C12", "failed-commit-acknowledged", "init", "Init returned success although its commit was refused")
					}
				}
				if err == nil {
					cr.noteInit()
				} else if refused {
					// the disk refused Init's commit: nothing was seeded
					sim.Probe("crash.init-commit-refused")
				} else if raced && errors.Is(err, badger.ErrConflict) {
					// the racing Create committed between Init's look at
					// the id and Init's commit: Init has done nothing
					cr.conflicts++
					sim.Probe("crash.init-conflict")
				} else if cr.c.SmallTxn && errors.Is(err, badger.ErrTxnTooBig) {
					// more seeds than a transaction of this database holds:
					// Init fails as a whole, nothing is seeded
					sim.Probe("crash.init-too-big")
				} else {
					h.Violate("C12", "init-error", "", "Init failed: "+err.Error())
				}
				cr.fl = nil
				_, cr.safeOff = vlogWriteOffset(cr.dir)
				if racer != nil {
					// the next operation starts after the racing Create. (The
					// racer may have been woken by the very write that woke
					// this task - it waits for Init's pending commit before
					// it reads -: park first, so that its state is looked at
					// when everything has settled.)
					for {
						sim.Yield("crash.op", "wait-racer")
						if racer.IsDone() {
							break
						}
					}
				}
			case "rebuild":
				cr.qs.Flush()
				if err := cr.qs.RebuildIndexes(); err != nil && !cr.rebuildRefused(err) {
					h.Violate("C12", "rebuild-error", rebuildSig(err), fmt.Sprintf("RebuildIndexes on the live store (prefix %q) failed: %v", c.Prefix, err))
				}
			case "flush":
				cr.qs.Flush()
			case "restart":
				cr.qs.Flush()
				restartReq = true
				sim.Yield("crash.restart", "")
			}
		}
	})
	for i := 0; ; i++ {
		stepBound(i, 1000000, "crash workload")
		sim.Wait()
		if restartReq {
			// dirty restart: continue on an image of the database, taken
			// now; the live database is abandoned
			restartReq = false
			img := filepath.Join(root, "g"+strconv.Itoa(cr.gen))
			if err := copyDir(cr.dir, img); err != nil {
				panic(err)
			}
			cr.db.Close()
			cr.open(img)
			live0 := beginFreeRun(cr.sim)
			if err := cr.st.Init(cr.seedsCB); err != nil {
				if !(cr.c.SmallTxn && errors.Is(err, badger.ErrTxnTooBig)) {
					h.Violate("C12", "init-error", "", "Init after restart failed: "+err.Error())
				}
			} else {
				cr.noteInit()
			}
			// index updates of the seeds run on the queue's own goroutine,
			// which the simulator does not schedule during a restart
			cr.qs.Flush()
			rebuilt := true
			if err := cr.qs.RebuildIndexes(); err != nil {
				rebuilt = false
				if !cr.rebuildRefused(err) {
					h.Violate("C12", "rebuild-error", rebuildSig(err), fmt.Sprintf("RebuildIndexes after restart (prefix %q) failed: %v", c.Prefix, err))
				}
			}
			cr.qs.Flush()
			endFreeRun(cr.sim, live0)
			// what the restart procedure wrote (seeds, marker) is acknowledged
			_, cr.safeOff = vlogWriteOffset(cr.dir)
			cr.checkLive("after dirty restart", rebuilt)
		}
		// crash image at the instrumented point the system is parked at
		for _, t := range sim.Parked() {
			if cr.racing {
				break
			}
			if isCrashPoint(t.Point) {
				cr.occ++
				if c.SamplePct >= 100 || sim.Choose(100, "image") < c.SamplePct {
					cr.image(root, t.Name+"@"+t.Point+"("+t.Arg+")", false)
					if c.Torn {
						cr.image(root, t.Name+"@"+t.Point+"("+t.Arg+")", true)
					}
				}
				break
			}
		}
		if !sim.Decide(nil) {
			break
		}
	}
	if !w.IsDone() {
		h.Violate("C12", "workload-stuck", "", "workload did not finish: "+describeParked(sim))
	} else {
		live0 := beginFreeRun(cr.sim)
		cr.qs.Flush()
		endFreeRun(cr.sim, live0)
		cr.image(root, "end of workload", false)
	}
	for _, p := range sim.Panics {
		h.Violate("C12", "panic", panicSignature(p), p)
	}
	out := &Outcome{Faults: map[string]int{"crash-image": cr.images, "torn-tail-image": cr.torn, "dirty-restart": cr.gen - 1, "commit-error": commitErrs, "rebuild-refused-txn-too-big": cr.refused}, Evals: cr.evals}
	out.Sample = map[string]interface{}{"prefix": c.Prefix, "ops": len(c.Ops), "seeds": len(c.Seeds), "hook_occurrences": cr.occ, "images": cr.images, "torn": cr.torn, "generations": cr.gen}
	for _, v := range h.Viol {
		if prop == "" || v.Property == prop {
			out.Violations = append(out.Violations, v)
		}
	}
	return out
}

// noteInit updates the acked model for an Init call that returned nil.
func (cr *crashRun) noteInit() {
	if !cr.initAck {
		for _, s := range cr.c.Seeds {
			if _, ok := cr.acked[s.ID]; !ok {
				cr.acked[s.ID] = &idxRec{K: s.K, N: s.N, V: s.V}
			}
		}
	}
	cr.initAck = true
}

func rebuildSig(err error) string {
	s := err.Error()
	if strings.Contains(s, "JSON") || strings.Contains(s, "json") {
		return "unmarshal"
	}
	return "other"
}

func isCrashPoint(p string) bool {
	switch {
	case strings.HasPrefix(p, "create."), strings.HasPrefix(p, "update."), strings.HasPrefix(p, "delete."), strings.HasPrefix(p, "init."),
		strings.HasPrefix(p, "updateIndex."), p == "rebuild.afterDrop", p == "handleChange.afterDo", p == "crash.op", p == "badger.commit", p == "tq.next", p == "badger.write":
		return true
	}
	return false
}

func (cr *crashRun) readAll(st *badgerstore.Store) map[string]*idxRec {
	out := map[string]*idxRec{}
	for _, id := range crashIDs {
		v, err := st.Get(id)
		if err == nil {
			out[id] = recOf(v)
		}
	}
	return out
}

func hasMarker(db *badger.DB, prefix string) bool {
	key := "$init"
	if prefix != "" {
		key = "$" + prefix + ".init"
	}
	found := false
	db.View(func(txn *badger.Txn) error {
		if _, err := txn.Get([]byte(key)); err == nil {
			found = true
		}
		return nil
	})
	return found
}

func recStr(r *idxRec) string {
	if r == nil {
		return "<absent>"
	}
	return fmt.Sprintf("{k:%q n:%q v:%d}", r.K, r.N, r.V)
}

// image takes a crash image of the live database directory (every goroutine
// of the bubble is durably blocked, so no write is in flight), reopens it and
// checks it.
func (cr *crashRun) image(root, where string, torn bool) {
	live0 := beginFreeRun(cr.sim)
	defer endFreeRun(cr.sim, live0)
	img := filepath.Join(root, "img")
	os.RemoveAll(img)
	if err := copyDir(cr.dir, img); err != nil {
		panic(err)
	}
	defer os.RemoveAll(img)
	cr.images++
	if torn {
		// power loss: an unacknowledged suffix of the value log is lost
		p, cur := vlogWriteOffset(img)
		if p == "" || cur <= cr.safeOff {
			return
		}
		cr.torn++
		cut := cr.safeOff + int64(cr.sim.Choose(int(cur-cr.safeOff)+1, "torn"))
		b, _ := os.ReadFile(p)
		for i := cut; i < int64(len(b)); i++ {
			b[i] = 0
		}
		os.WriteFile(p, b, 0o644)
		where += fmt.Sprintf(" torn at %d of [%d,%d]", cut, cr.safeOff, cur)
	}
	db, err := badger.Open(cr.opts(img))
	if err != nil {
		cr.h.Violate("C12", "reopen-failed", "", fmt.Sprintf("crash image at %s cannot be opened: %v", where, err))
		return
	}
	defer db.Close()
	st := badgerstore.NewStore(db).SetPrefix(cr.c.Prefix).SetType(idxRec{})
	qs := newIdxQueryStore(st)
	stored := cr.readAll(st)
	marker := hasMarker(db, cr.c.Prefix)
	fl := cr.fl
	desc := func() string {
		return fmt.Sprintf("crash image at %s (prefix %q): stored=%s acked=%s in-flight=%s marker=%v", where, cr.c.Prefix, describeState(stored), describeState(cr.acked), flightStr(fl), marker)
	}
	// (1) acknowledged mutations are present; the one in flight is all or nothing
	initCommitted := false
	if fl != nil && fl.kind == "init" && !cr.initAck {
		initCommitted = marker
	}
	for _, id := range crashIDs {
		cr.evals++
		want := cr.acked[id]
		got := stored[id]
		if fl != nil && fl.kind != "init" && fl.id == id {
			if !sameRec(got, fl.old) && !sameRec(got, fl.new) {
				cr.h.Violate("C12", "in-flight-garbage", "", fmt.Sprintf("id %q holds %s, neither the old nor the new value of the mutation in flight; %s", id, recStr(got), desc()))
			}
			continue
		}
		if initCommitted {
			// the interrupted Init committed: seeds that did not exist are present
			if want == nil {
				for _, s := range cr.c.Seeds {
					if s.ID == id {
						want = &idxRec{K: s.K, N: s.N, V: s.V}
					}
				}
			}
		}
		if !sameRec(got, want) {
			cls := "acked-write-lost"
			if fl != nil && fl.kind == "init" {
				cls = "half-seeded"
			}
			cr.h.Violate("C12", cls, "", fmt.Sprintf("id %q holds %s, expected %s; %s", id, recStr(got), recStr(want), desc()))
		}
	}
	if cr.initAck && !marker {
		cr.h.Violate("C12", "marker-lost", "", "an Init call returned but the crash image has no init marker; "+desc())
	}
	// (2) restart procedure: Init with the same seeds, then RebuildIndexes
	tooBig := false
	if err := st.Init(cr.seedsCB); err != nil {
		if !(cr.c.SmallTxn && errors.Is(err, badger.ErrTxnTooBig)) {
			cr.h.Violate("C12", "init-error", "restart", fmt.Sprintf("Init on the crash image failed: %v; %s", err, desc()))
			return
		}
		tooBig = true // refused as a whole: nothing may have been seeded
	}
	after := cr.readAll(st)
	for _, id := range crashIDs {
		cr.evals++
		want := stored[id]
		if !marker && want == nil && !tooBig {
			for _, s := range cr.c.Seeds {
				if s.ID == id {
					want = &idxRec{K: s.K, N: s.N, V: s.V}
				}
			}
		}
		if !sameRec(after[id], want) {
			cls := "seed-resurrected"
			if after[id] == nil {
				cls = "seed-missing"
			}
			cr.h.Violate("C12", cls, "", fmt.Sprintf("after Init on the crash image id %q holds %s, expected %s (marker before Init: %v); %s", id, recStr(after[id]), recStr(want), marker, desc()))
		}
	}
	qs.Flush()
	if err := qs.RebuildIndexes(); err != nil {
		if cr.rebuildRefused(err) {
			return
		}
		cr.h.Violate("C12", "rebuild-error", rebuildSig(err), fmt.Sprintf("RebuildIndexes on the crash image (prefix %q) failed: %v; %s", cr.c.Prefix, err, desc()))
		return
	}
	qsl := append([]IdxQuery{{Index: "k", Limit: -1}, {Index: "n", Limit: -1}}, cr.c.Queries...)
	for _, q := range qsl {
		cr.evals++
		r, err := qs.Query(q.values())
		ids, _ := r.([]string)
		want := refQuery(after, q)
		if err != nil || strings.Join(ids, ",") != strings.Join(want, ",") {
			cr.h.Violate("C12", "index-after-rebuild", "", fmt.Sprintf("after RebuildIndexes on the crash image, query %+v returns %q (err %v), the stored values give %q; %s", q, ids, err, want, desc()))
		}
	}
}

func flightStr(f *flight) string {
	if f == nil {
		return "none"
	}
	if f.kind == "init" {
		return "init"
	}
	return fmt.Sprintf("%s(%s: %s -> %s)", f.kind, f.id, recStr(f.old), recStr(f.new))
}

// checkLive compares the live store with the acked model at a quiescent
// instant.
func (cr *crashRun) checkLive(where string, indexes bool) {
	stored := cr.readAll(cr.st)
	for _, id := range crashIDs {
		cr.evals++
		if !sameRec(stored[id], cr.acked[id]) {
			cr.h.Violate("C12", "acked-write-lost", "live", fmt.Sprintf("%s: id %q holds %s, expected %s", where, id, recStr(stored[id]), recStr(cr.acked[id])))
		}
	}
	if !indexes {
		return
	}
	for _, q := range []IdxQuery{{Index: "k", Limit: -1}, {Index: "n", Limit: -1}} {
		r, err := cr.qs.Query(q.values())
		ids, _ := r.([]string)
		want := refQuery(stored, q)
		if err != nil || strings.Join(ids, ",") != strings.Join(want, ",") {
			cr.h.Violate("C12", "index-after-rebuild", "live", fmt.Sprintf("%s: query %+v returns %q (err %v), stored values give %q", where, q, ids, err, want))
		}
	}
}

var _ = bytes.Equal

func init() { register(CrashScenario{}) }

// beginFreeRun lets the library's goroutines run without the scheduler (an
// image is checked, a restart procedure runs): yield points do not park.
// endFreeRun hands control back once the task queue workers started in
// between are gone - a worker that outlives the region would park at its next
// yield point and appear to the scheduler as a task of the run, at a moment
// that depends on real time.
func beginFreeRun(sim *sched.Sim) int64 {
	live0 := taskqueue.Live()
	sim.PassThrough.Store(true)
	return live0
}

func endFreeRun(sim *sched.Sim, live0 int64) {
	for i := 0; taskqueue.Live() > live0 && i < 5000000; i++ {
		runtime.Gosched()
	}
	sim.PassThrough.Store(false)
}

func either[T any](cond bool, a, b T) T {
	if cond {
		return a
	}
	return b
}
