//go:build !race

package scen

func raceErrors() int { return 0 }
