package scen

import (
	"encoding/json"
	"fmt"
	"os"
	"testing"
	"time"

	"verif/sim/sched"
)

// shrinkMain minimises the replay file in place (writes <file> again) while
// the same violation class persists.
func shrinkMain(t *testing.T) int {
	rp, err := loadReplay(*fFile)
	if err != nil {
		fmt.Fprintln(os.Stderr, "shrink:", err)
		return 2
	}
	scn := scenarios[rp.Scenario]
	if scn == nil || rp.Violation == nil {
		return 2
	}
	key := rp.Violation.Key()
	deadline := time.Now().Add(90 * time.Second)
	tries := 0
	// try runs the candidate and reports whether the violation persists; on
	// success it returns the used tape length.
	try := func(c interface{}, tape []uint32) (bool, int, *Violation) {
		tries++
		out, sim := executeRun(t, scn, c, sched.ReplayTape(tape), rp.Property, rp.Race, false)
		if out == nil {
			return false, 0, nil
		}
		if rp.Race {
			// race reports are process-global; not shrinkable in process
			return false, 0, nil
		}
		for _, v := range out.Violations {
			if v.Key() == key {
				return true, sim.Tape.Pos(), v
			}
		}
		return false, 0, nil
	}
	c, err := scn.DecodeCase(rp.Case)
	if err != nil {
		return 2
	}
	tape := rp.Tape
	ok, used, v := try(c, tape)
	if !ok {
		fmt.Fprintln(os.Stderr, "shrink: violation does not reproduce")
		return 4
	}
	if used < len(tape) {
		tape = tape[:used]
	}
	best := v
	// 1. case shrinking (delta debugging over actors/ops/config)
	progress := true
	for progress && time.Now().Before(deadline) {
		progress = false
		for _, cand := range scn.Shrinks(c) {
			if time.Now().After(deadline) {
				break
			}
			if ok, used, v := try(cand, tape); ok {
				c = cand
				if used < len(tape) {
					tape = tape[:used]
				}
				best = v
				progress = true
				break
			}
		}
	}
	// 2. tape: cut the tail, then zero blocks (0 = the boring choice)
	for n := len(tape) / 2; n >= 1 && time.Now().Before(deadline); n /= 2 {
		for start := 0; start+n <= len(tape) && time.Now().Before(deadline); start += n {
			allZero := true
			for _, x := range tape[start : start+n] {
				if x != 0 {
					allZero = false
				}
			}
			if allZero {
				continue
			}
			cand := append([]uint32(nil), tape...)
			for i := start; i < start+n; i++ {
				cand[i] = 0
			}
			if ok, used, v := try(c, cand); ok {
				tape = cand
				if used < len(tape) {
					tape = tape[:used]
				}
				best = v
			}
		}
	}
	// trim trailing zeros: an exhausted tape yields 0 anyway
	for len(tape) > 0 && tape[len(tape)-1] == 0 {
		tape = tape[:len(tape)-1]
	}
	// final run with trace
	raw, _ := json.Marshal(c)
	rp.Case = raw
	rp.Tape = tape
	out, sim := executeRun(t, scn, c, sched.ReplayTape(tape), rp.Property, rp.Race, true)
	found := false
	if out != nil {
		for _, v := range out.Violations {
			if v.Key() == key {
				best = v
				found = true
			}
		}
	}
	if !found {
		fmt.Fprintln(os.Stderr, "shrink: minimised case lost the violation; keeping original")
		return 4
	}
	rp.Violation = best
	rp.Trace = sim.Trace
	if len(rp.Trace) > 400 {
		rp.Trace = rp.Trace[len(rp.Trace)-400:]
	}
	rp.Note = fmt.Sprintf("minimised in %d candidate runs", tries)
	b, _ := json.MarshalIndent(rp, "", " ")
	if err := os.WriteFile(*fFile, b, 0o644); err != nil {
		return 2
	}
	return 0
}
