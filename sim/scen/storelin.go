package scen

import (
	"encoding/json"
	"errors"
	"fmt"
	"math/rand/v2"
	"os"
	"sort"
	"strconv"
	"strings"
	"time"

	"github.com/anishathalye/porcupine"
	"github.com/dgraph-io/badger"
	res "github.com/jirenius/go-res"
	"github.com/jirenius/go-res/store"
	"github.com/jirenius/go-res/store/badgerstore"
	"github.com/jirenius/go-res/store/mockstore"
	"github.com/jirenius/keylock"
	"github.com/jirenius/taskqueue"

	"verif/sim/sched"
)

// ---- badger helpers -----------------------------------------------------

func tempDBDir() string {
	base := "/dev/shm"
	if st, err := os.Stat(base); err != nil || !st.IsDir() {
		base = os.TempDir()
	}
	d, err := os.MkdirTemp(base, "gores-sim-")
	if err != nil {
		panic(err)
	}
	return d
}

func badgerOpts(dir string) badger.Options {
	return badger.DefaultOptions(dir).WithLogger(nil).WithMaxTableSize(1 << 20).WithValueLogFileSize(1 << 20).
		WithNumMemtables(1).WithNumLevelZeroTables(1).WithNumLevelZeroTablesStall(2).WithNumCompactors(1).
		WithCompactL0OnClose(false).WithEventLogging(false).WithLevelOneSize(1 << 20).WithTruncate(true)
}

func openBadger(dir string) *badger.DB {
	db, err := badger.Open(badgerOpts(dir))
	if err != nil {
		panic(fmt.Sprintf("badger open: %v", err))
	}
	return db
}

// ---- case -----------------------------------------------------------------

// StoreOp is one call inside a transaction.
type StoreOp struct {
	Kind      string `json:"k"` // value | exists | create | update | delete
	Val       int    `json:"v,omitempty"`
	WrongType bool   `json:"wt,omitempty"`
	Veto      bool   `json:"veto,omitempty"`
	CommitErr bool   `json:"commit_err,omitempty"` // the commit of this mutation is refused (disk error)
}

// TxnSpec is one transaction of a task.
type TxnSpec struct {
	Write bool      `json:"w"`
	ID    string    `json:"id"`
	Ops   []StoreOp `json:"ops"`
}

// StoreCase is a case of the store-only scenario.
type StoreCase struct {
	Backend  string      `json:"backend"` // mock | badger
	Typed    bool        `json:"typed"`
	Prefix   string      `json:"prefix"`
	Tasks    [][]TxnSpec `json:"tasks"`
	Optional []string    `json:"optional"`
	// Listeners: "" both BeforeChange and OnChange, "none" a store nobody
	// listens to, "onchange" no BeforeChange (badger store only: the change
	// callbacks are then not checked, the results of the calls are)
	Listeners string `json:"listeners,omitempty"`
	// VetoLast: of the two BeforeChange listeners the second one vetoes
	VetoLast bool `json:"veto_last,omitempty"`
	// GenIDs (mock backend): the store generates the id of a value created
	// in a transaction on the empty id; the generator also comes up with ids
	// that are taken
	GenIDs bool `json:"gen_ids,omitempty"`
}

type typedRec struct {
	V int `json:"v"`
}

type otherRec struct {
	X string `json:"x"`
}

var storePoints = []string{"create.beforeTxn", "create.inTxn", "create.afterCommit", "update.beforeTxn", "update.inTxn", "update.afterCommit",
	"delete.beforeTxn", "delete.inTxn", "delete.afterCommit", "store.op", "badger.commit", "badger.view", "badger.update"}

// StoreLinScenario: stores are per-id linearizable maps with exact change
// callbacks (C11).
type StoreLinScenario struct{}

func (StoreLinScenario) Name() string { return "storelin" }

func (StoreLinScenario) GenCase(r *rand.Rand, prop string) interface{} {
	c := &StoreCase{}
	c.Backend = pick(r, "mock", "badger", "badger")
	if c.Backend == "badger" {
		c.Typed = chance(r, 50)
		c.Prefix = pick(r, "", "pre", "a.b")
		c.Listeners = pick(r, "", "", "", "none", "onchange")
		c.VetoLast = chance(r, 50)
	}
	for _, p := range storePoints {
		if chance(r, 60) {
			c.Optional = append(c.Optional, p)
		}
	}
	c.GenIDs = c.Backend == "mock" && chance(r, 50)
	ids := []string{"a", "b", "c"}
	if c.Prefix != "" {
		// an id that looks like another id with the store's prefix on it
		ids = append(ids, c.Prefix+".a")
	}
	val := 0
	ntasks := 2 + r.IntN(3)
	for t := 0; t < ntasks; t++ {
		var txns []TxnSpec
		for i, n := 0, 1+r.IntN(4); i < n; i++ {
			tx := TxnSpec{Write: chance(r, 65), ID: pick(r, ids...)}
			if chance(r, 6) || c.GenIDs && chance(r, 20) {
				tx.ID = ""
			}
			if chance(r, 60) {
				tx.ID = "a" // contention
			}
			for j, m := 0, 1+r.IntN(4); j < m; j++ {
				op := StoreOp{}
				if tx.Write {
					op.Kind = pick(r, "value", "exists", "create", "create", "update", "update", "delete")
				} else {
					op.Kind = pick(r, "value", "exists")
				}
				if op.Kind == "create" || op.Kind == "update" {
					val++
					op.Val = val
					if c.Backend == "badger" && chance(r, 8) {
						op.WrongType = true
					}
				}
				if c.Backend == "badger" && c.Listeners == "" && (op.Kind == "create" || op.Kind == "update" || op.Kind == "delete") && chance(r, 8) {
					op.Veto = true
				}
				if c.Backend == "badger" && (op.Kind == "create" || op.Kind == "update" || op.Kind == "delete") && chance(r, 6) {
					op.CommitErr = true
				}
				tx.Ops = append(tx.Ops, op)
			}
			txns = append(txns, tx)
		}
		c.Tasks = append(c.Tasks, txns)
	}
	return c
}

func (StoreLinScenario) DecodeCase(raw json.RawMessage) (interface{}, error) {
	c := &StoreCase{}
	err := json.Unmarshal(raw, c)
	return c, err
}

func (StoreLinScenario) Shrinks(ci interface{}) []interface{} {
	c := ci.(*StoreCase)
	clone := func() *StoreCase {
		b, _ := json.Marshal(c)
		n := &StoreCase{}
		json.Unmarshal(b, n)
		return n
	}
	var out []interface{}
	for t := range c.Tasks {
		if len(c.Tasks) > 1 {
			n := clone()
			n.Tasks = append(n.Tasks[:t:t], n.Tasks[t+1:]...)
			out = append(out, n)
		}
		for i := range c.Tasks[t] {
			n := clone()
			n.Tasks[t] = append(n.Tasks[t][:i:i], n.Tasks[t][i+1:]...)
			out = append(out, n)
			for j := range c.Tasks[t][i].Ops {
				if len(c.Tasks[t][i].Ops) > 1 {
					n := clone()
					ops := n.Tasks[t][i].Ops
					n.Tasks[t][i].Ops = append(ops[:j:j], ops[j+1:]...)
					out = append(out, n)
				}
			}
		}
	}
	return out
}

// sop is one recorded store call.
type sop struct {
	Task    int
	Txn     int
	Kind    string // open | close | value | exists | create | update | delete
	Write   bool
	ID      string
	In      StoreOp
	Invoke  uint64
	Return  uint64
	OK      bool
	OutVal  int
	ErrText string
	IsDup   bool
	IsNF    bool
}

type changeRec struct {
	Seq    uint64
	Task   string
	ID     string
	Before int
	After  int
}

func valOf(v interface{}) int {
	switch x := v.(type) {
	case nil:
		return 0
	case typedRec:
		return x.V
	case map[string]interface{}:
		switch n := x["v"].(type) {
		case float64:
			return int(n)
		case int:
			return n
		}
	}
	return -1
}

type storeRun struct {
	sim     *sched.Sim
	c       *StoreCase
	h       *Hist
	ops     []*sop
	changes []changeRec
	veto    map[string]bool
	genID   map[string]string // id generated by the store for the running operation, by task
	// injected commit errors, by task name
	failCommit  map[string]bool
	commitFired map[string]bool
	commitErrs  int
	// harness transaction table (mockstore regime)
	openW string
	openR int
	mock  *mockstore.Store
}

func (sr *storeRun) mkVal(op StoreOp) interface{} {
	if op.WrongType {
		return otherRec{X: "wrong"}
	}
	if sr.c.Typed {
		return typedRec{V: op.Val}
	}
	return map[string]interface{}{"v": op.Val}
}

func (StoreLinScenario) Execute(sim *sched.Sim, ci interface{}, prop string, race bool) *Outcome {
	c := ci.(*StoreCase)
	h := NewHist(sim)
	sr := &storeRun{sim: sim, c: c, h: h, veto: map[string]bool{}, genID: map[string]string{}, failCommit: map[string]bool{}, commitFired: map[string]bool{}}
	sim.Optional = map[string]bool{}
	for _, p := range c.Optional {
		sim.Optional[p] = true
	}
	sim.RoleOf = roleOf
	useCanon(sim)
	var st store.Store
	var db *badger.DB
	var dir string
	switch c.Backend {
	case "mock":
		sr.mock = mockstore.NewStore()
		if c.GenIDs {
			ngen := 0
			sr.mock.NewID = func() string {
				id := []string{"a", "n1", "b", "n2", "c", "a"}[ngen%6]
				ngen++
				sim.Probe("store.generated-id")
				if t := sim.Current(); t != nil {
					sr.genID[t.Name] = id
				}
				return id
			}
		}
		st = sr.mock
	default:
		dir = tempDBDir()
		defer os.RemoveAll(dir)
		db = openBadger(dir)
		bs := badgerstore.NewStore(db).SetPrefix(c.Prefix)
		if c.Typed {
			bs.SetType(typedRec{})
		}
		if c.Listeners == "" {
			// two listeners, one of which may veto: a veto of either stands
			accept := func(id string, before, after interface{}) error { return nil }
			veto := func(id string, before, after interface{}) error {
				if t := sim.Current(); t != nil && sr.veto[t.Name] {
					return errors.New("vetoed by BeforeChange")
				}
				return nil
			}
			if c.VetoLast {
				bs.BeforeChange(accept)
				bs.BeforeChange(veto)
			} else {
				bs.BeforeChange(veto)
				bs.BeforeChange(accept)
			}
		}
		st = bs
		badgerstore.VerifHook = sim.Yield
		badger.VerifHook = sim.Yield
		keylock.Hook = sim.Yield
		taskqueue.Hook = sim.Yield
		badger.VerifCommitFault = func() error {
			if t := sim.Current(); t != nil && sr.failCommit[t.Name] {
				sr.failCommit[t.Name] = false
				sr.commitFired[t.Name] = true
				return errors.New("simulated disk error at commit")
			}
			return nil
		}
		defer func() {
			badgerstore.VerifHook = nil
			badger.VerifHook = nil
			badger.VerifCommitFault = nil
			keylock.Hook = nil
			taskqueue.Hook = nil
		}()
	}
	if c.Listeners == "none" {
		sim.Probe("store.no-listeners")
	} else {
		st.OnChange(func(id string, before, after interface{}) {
			name := "?"
			if t := sim.Current(); t != nil {
				name = t.Name
			}
			h.mu.Lock()
			sr.changes = append(sr.changes, changeRec{Seq: sim.Seq(), Task: name, ID: id, Before: valOf(before), After: valOf(after)})
			h.mu.Unlock()
		})
	}
	ntasks := len(c.Tasks)
	tasks := make([]*sched.Task, 0, ntasks+1)
	txnCount := 0
	for ti := range c.Tasks {
		ti := ti
		name := "client" + strconv.Itoa(ti+1)
		tasks = append(tasks, sim.Go(name, func() {
			for _, tx := range c.Tasks[ti] {
				txnCount++
				sr.runTxn(st, ti, txnCount, name, tx)
			}
		}))
	}
	// main loop
	filter := func(t *sched.Task) bool {
		if sr.mock == nil || t.Point != "store.open" {
			return true
		}
		// mockstore regime: a task whose open would block is not released
		if strings.HasPrefix(t.Arg, "W") {
			return sr.openW == "" && sr.openR == 0
		}
		return sr.openW == ""
	}
	for steps := 0; steps < 5000; steps++ {
		sim.Wait()
		sr.probeLock()
		if !sim.Decide(filter) {
			break
		}
	}
	allDone := true
	for _, t := range tasks {
		if !t.IsDone() {
			allDone = false
		}
	}
	if !allDone {
		h.Violate("C11", "store-deadlock", "", "store clients did not finish: "+sr.describeParked())
	}
	// final reads
	if allDone {
		for _, id := range []string{"a", "b", "c"} {
			o := &sop{Task: ntasks, Kind: "value", ID: id, Invoke: sim.Seq()}
			rt := st.Read(id)
			v, err := rt.Value()
			rt.Close()
			o.Return = sim.Seq()
			o.OK = err == nil
			o.OutVal = valOf(v)
			if err != nil {
				o.ErrText = err.Error()
				o.IsNF = errors.Is(err, store.ErrNotFound)
			}
			sr.ops = append(sr.ops, o)
		}
	}
	for _, p := range sim.Panics {
		h.Violate("C11", "panic", panicSignature(p), p)
	}
	sr.checkLocal()
	sr.checkIsolation()
	if c.Listeners != "none" {
		sr.checkCallbacks()
	}
	if db != nil {
		db.Close()
	}
	out := &Outcome{Faults: map[string]int{}}
	out.Evals = h.Evals + len(sr.ops)
	vetoes, wrong := 0, 0
	for _, o := range sr.ops {
		if o.In.Veto {
			vetoes++
		}
		if o.In.WrongType {
			wrong++
		}
	}
	out.Faults["before-change-veto"] = vetoes - sr.commitErrs
	out.Faults["commit-error"] = sr.commitErrs
	out.Faults["wrong-type-value"] = wrong
	out.Sample = map[string]interface{}{"backend": c.Backend, "typed": c.Typed, "prefix": c.Prefix, "tasks": len(c.Tasks), "calls": len(sr.ops)}
	ops := sr.ops
	out.Post = func(o *Outcome) {
		// linearizability against the KV model, outside the bubble (real clock)
		res, inconclusive := checkLinearizable(ops)
		if res != "" {
			o.Violations = append(o.Violations, &Violation{Property: "C11", Class: "not-linearizable", Signature: "", Detail: res})
		}
		o.Inconclusive += inconclusive
	}
	for _, v := range h.Viol {
		if prop == "" || v.Property == prop {
			out.Violations = append(out.Violations, v)
		}
	}
	return out
}

func (sr *storeRun) describeParked() string {
	var parts []string
	for _, t := range sr.sim.Parked() {
		parts = append(parts, t.Name+"@"+t.Point+"("+t.Arg+")")
	}
	return strings.Join(parts, ", ")
}

// probeLock checks the real mockstore mutex against the harness table.
func (sr *storeRun) probeLock() {
	if sr.mock == nil {
		return
	}
	sr.h.Evals++
	switch {
	case sr.openW != "":
		if sr.mock.TryLock() {
			sr.mock.Unlock()
			sr.h.Violate("C11", "isolation", "lock-free-during-write-txn", "mockstore: the store lock could be taken while a write transaction of "+sr.openW+" is open")
		} else if sr.mock.TryRLock() {
			sr.mock.RUnlock()
			sr.h.Violate("C11", "isolation", "rlock-free-during-write-txn", "mockstore: a read lock could be taken while a write transaction of "+sr.openW+" is open")
		}
	case sr.openR > 0:
		if sr.mock.TryLock() {
			sr.mock.Unlock()
			sr.h.Violate("C11", "isolation", "lock-free-during-read-txn", "mockstore: the write lock could be taken while a read transaction is open")
		}
	default:
		if !sr.mock.TryLock() {
			sr.h.Violate("C11", "isolation", "lock-leaked", "mockstore: the store lock is held although no transaction is open")
		} else {
			sr.mock.Unlock()
		}
	}
}

func (sr *storeRun) rec(o *sop) {
	sr.h.mu.Lock()
	sr.ops = append(sr.ops, o)
	sr.h.mu.Unlock()
}

func (sr *storeRun) runTxn(st store.Store, ti, txn int, name string, tx TxnSpec) {
	sim := sr.sim
	kind := "R"
	if tx.Write {
		kind = "W"
	}
	sim.Yield("store.open", kind+":"+tx.ID)
	open := &sop{Task: ti, Txn: txn, Kind: "open", Write: tx.Write, ID: tx.ID, Invoke: sim.Seq()}
	var rt store.ReadTxn
	var wt store.WriteTxn
	if tx.Write {
		wt = st.Write(tx.ID)
		rt = wt
		sr.openW = name
	} else {
		rt = st.Read(tx.ID)
		sr.openR++
	}
	open.Return = sim.Seq()
	open.OK = true
	sr.rec(open)
	for _, op := range tx.Ops {
		sim.Yield("store.op", op.Kind)
		o := &sop{Task: ti, Txn: txn, Kind: op.Kind, Write: tx.Write, ID: tx.ID, In: op}
		if op.Veto {
			sr.veto[name] = true
		}
		if op.CommitErr {
			sr.failCommit[name] = true
		}
		o.Invoke = sim.Seq()
		var err error
		switch op.Kind {
		case "value":
			var v interface{}
			v, err = rt.Value()
			o.OutVal = valOf(v)
		case "exists":
			if !rt.Exists() {
				err = errors.New("does not exist")
			}
		case "create":
			err = wt.Create(sr.mkVal(op))
		case "update":
			err = wt.Update(sr.mkVal(op))
		case "delete":
			err = wt.Delete()
		}
		o.Return = sim.Seq()
		if g := sr.genID[name]; g != "" {
			// the value was created under an id of the store's choosing
			o.ID = g
			sr.genID[name] = ""
		}
		sr.veto[name] = false
		sr.failCommit[name] = false
		if sr.commitFired[name] {
			// the commit was refused: like a veto, the call must fail and
			// leave no trace
			sr.commitFired[name] = false
			o.In.Veto = true
			sr.commitErrs++
		}
		o.OK = err == nil
		if err != nil {
			o.ErrText = err.Error()
			o.IsDup = errors.Is(err, store.ErrDuplicate)
			o.IsNF = errors.Is(err, store.ErrNotFound) || errors.Is(err, res.ErrNotFound)
		}
		sr.rec(o)
	}
	sim.Yield("store.op", "close")
	cl := &sop{Task: ti, Txn: txn, Kind: "close", Write: tx.Write, ID: tx.ID, Invoke: sim.Seq()}
	rt.Close()
	if tx.Write {
		sr.openW = ""
	} else {
		sr.openR--
	}
	cl.Return = sim.Seq()
	cl.OK = true
	sr.rec(cl)
}

// checkLocal: the documented error contract, call by call.
func (sr *storeRun) checkLocal() {
	for _, o := range sr.ops {
		if o.OK || o.In.WrongType || o.In.Veto {
			continue
		}
		sr.h.Evals++
		switch o.Kind {
		case "create":
			if o.ID == "" {
				continue // any error will do: the store does not generate ids
			}
			if !o.IsDup {
				sr.h.Violate("C11", "error-contract", "create-not-ErrDuplicate", fmt.Sprintf("%s store: Create on existing id %q failed with %q, which is not (and does not wrap) store.ErrDuplicate", sr.c.Backend, o.ID, o.ErrText))
			}
		case "update", "delete", "value":
			if !o.IsNF {
				sr.h.Violate("C11", "error-contract", o.Kind+"-not-ErrNotFound", fmt.Sprintf("%s store: %s on id %q failed with %q, which is not (and does not wrap) store.ErrNotFound", sr.c.Backend, o.Kind, o.ID, o.ErrText))
			}
		}
	}
}

// checkIsolation: while a write transaction on an id is open, no call of
// another task's transaction on that id returns.
func (sr *storeRun) checkIsolation() {
	type win struct {
		task     int
		id       string
		from, to uint64
	}
	var wins []win
	opens := map[int]*sop{}
	for _, o := range sr.ops {
		if o.Kind == "open" && o.Write {
			opens[o.Txn] = o
		}
		if o.Kind == "close" && o.Write {
			if op := opens[o.Txn]; op != nil {
				wins = append(wins, win{o.Task, o.ID, op.Return, o.Invoke})
			}
		}
	}
	for _, w := range wins {
		for _, o := range sr.ops {
			sr.h.Evals++
			if o.Task != w.task && o.ID == w.id && o.Return > w.from && o.Return < w.to {
				sr.h.Violate("C11", "isolation", "progress-during-write-txn", fmt.Sprintf("%s store: %s on id %q by client %d returned while client %d holds a write transaction on that id", sr.c.Backend, o.Kind, o.ID, o.Task+1, w.task+1))
			}
		}
	}
}

// checkCallbacks: one OnChange per successful mutation, on the caller's
// task, with before/after forming a chain per id.
func (sr *storeRun) checkCallbacks() {
	used := map[int]bool{}
	for _, o := range sr.ops {
		mut := o.Kind == "create" || o.Kind == "update" || o.Kind == "delete"
		if !mut {
			continue
		}
		sr.h.Evals++
		n := 0
		for i, ch := range sr.changes {
			if ch.Seq > o.Invoke && ch.Seq < o.Return && ch.Task == "client"+strconv.Itoa(o.Task+1) {
				n++
				used[i] = true
				after := o.In.Val
				if o.Kind == "delete" {
					after = 0
				}
				if ch.After != after || ch.ID != o.ID {
					sr.h.Violate("C11", "callback", "wrong-after-value", fmt.Sprintf("OnChange for %s(%d) on %q reported id=%q after=%d", o.Kind, o.In.Val, o.ID, ch.ID, ch.After))
				}
			}
		}
		want := 0
		if o.OK {
			want = 1
		}
		if n != want {
			sr.h.Violate("C11", "callback", "count", fmt.Sprintf("%s store: %s on %q (ok=%v) ran %d OnChange callbacks on the caller's task, expected %d", sr.c.Backend, o.Kind, o.ID, o.OK, n, want))
		}
	}
	for i, ch := range sr.changes {
		if !used[i] {
			sr.h.Violate("C11", "callback", "stray", fmt.Sprintf("OnChange(id=%q before=%d after=%d) on task %s belongs to no successful mutation of that task", ch.ID, ch.Before, ch.After, ch.Task))
		}
	}
	byID := map[string][]changeRec{}
	for _, ch := range sr.changes {
		byID[ch.ID] = append(byID[ch.ID], ch)
	}
	for id, l := range byID {
		sort.Slice(l, func(i, j int) bool { return l[i].Seq < l[j].Seq })
		prev := 0
		for _, ch := range l {
			sr.h.Evals++
			if ch.Before != prev {
				sr.h.Violate("C11", "callback", "chain", fmt.Sprintf("%s store: OnChange for id %q has before=%d but the previous change left %d", sr.c.Backend, id, ch.Before, prev))
			}
			prev = ch.After
		}
	}
}

// ---- porcupine model ---------------------------------------------------------

type kvIn struct {
	Kind     string
	ID       string
	Val      int
	MustFail bool // wrong type or veto
}

type kvOut struct {
	OK  bool
	Val int
}

var kvModel = porcupine.Model{
	Partition: func(history []porcupine.Operation) [][]porcupine.Operation {
		m := map[string][]porcupine.Operation{}
		var keys []string
		for _, op := range history {
			id := op.Input.(kvIn).ID
			if _, ok := m[id]; !ok {
				keys = append(keys, id)
			}
			m[id] = append(m[id], op)
		}
		sort.Strings(keys)
		var out [][]porcupine.Operation
		for _, k := range keys {
			out = append(out, m[k])
		}
		return out
	},
	Init: func() interface{} { return 0 },
	Step: func(state, input, output interface{}) (bool, interface{}) {
		st := state.(int)
		in := input.(kvIn)
		out := output.(kvOut)
		empty := in.ID == ""
		switch in.Kind {
		case "value":
			if st == 0 || empty {
				return !out.OK, st
			}
			return out.OK && out.Val == st, st
		case "exists":
			return out.OK == (st != 0 && !empty), st
		case "create":
			if empty || in.MustFail || st != 0 {
				return !out.OK, st
			}
			return out.OK, in.Val
		case "update":
			if empty || in.MustFail || st == 0 {
				return !out.OK, st
			}
			return out.OK, in.Val
		case "delete":
			if empty || in.MustFail || st == 0 {
				return !out.OK, st
			}
			return out.OK, 0
		}
		return false, st
	},
	DescribeOperation: func(input, output interface{}) string {
		in := input.(kvIn)
		out := output.(kvOut)
		return fmt.Sprintf("%s(%q,%d,mustfail=%v) -> ok=%v val=%d", in.Kind, in.ID, in.Val, in.MustFail, out.OK, out.Val)
	},
}

func checkLinearizable(ops []*sop) (string, int) {
	var hist []porcupine.Operation
	for _, o := range ops {
		if o.Kind == "open" || o.Kind == "close" {
			continue
		}
		hist = append(hist, porcupine.Operation{ClientId: o.Task, Input: kvIn{Kind: o.Kind, ID: o.ID, Val: o.In.Val, MustFail: o.In.WrongType || o.In.Veto},
			Call: int64(o.Invoke), Output: kvOut{OK: o.OK, Val: o.OutVal}, Return: int64(o.Return)})
	}
	if len(hist) == 0 {
		return "", 0
	}
	r := porcupine.CheckOperationsTimeout(kvModel, hist, 30*time.Second)
	switch r {
	case porcupine.Illegal:
		var lines []string
		for _, op := range hist {
			lines = append(lines, fmt.Sprintf("  c%d [%d,%d] %s", op.ClientId+1, op.Call, op.Return, kvModel.DescribeOperation(op.Input, op.Output)))
		}
		return "history is not linearizable with respect to the per-id key-value model:\n" + strings.Join(lines, "\n"), 0
	case porcupine.Unknown:
		return "", 1
	}
	return "", 0
}

func init() { register(StoreLinScenario{}) }
