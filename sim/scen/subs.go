package scen

import (
	"encoding/json"
	"fmt"
	"math/rand/v2"
	"sort"
	"strconv"
	"strings"

	"verif/sim/sched"
	"verif/sim/simconn"
)

// SubsScenario: subscriptions cover exactly what is owned; system.reset
// announces it (C09).
type SubsScenario struct{}

func (SubsScenario) Name() string { return "subs" }

func prefixed(name string, rel ...string) []string {
	var out []string
	for _, r := range rel {
		switch {
		case name == "":
			if r == "" {
				continue
			}
			out = append(out, r)
		case r == "":
			out = append(out, name)
		default:
			out = append(out, name+"."+r)
		}
	}
	return out
}

func (SubsScenario) GenCase(r *rand.Rand, prop string) interface{} {
	c := &SvcCase{Gate: true, Epochs: 1, MidStop: []int{-1}, Optional: []string{"conn.Subscribe", "conn.Publish", "event", "worker.beforeCb", "handleRequest", "Shutdown.afterWait"}}
	c.SvcName = pick(r, "test", "test", "test", "a.b", "")
	c.Workers = pick(r, 1, 2, 4)
	c.InCh = 1024
	if chance(r, 12) {
		// one of the service's own subscriptions fails
		c.SubFailAt = 1 + r.IntN(6)
	}
	if chance(r, 30) {
		// the same Service served twice; the second time possibly while the
		// first Serve call is still on its way out
		c.Epochs, c.MidStop = 2, []int{pick(r, -1, -1, 20, 60), -1}
		c.OverlapServe = chance(r, 60)
	}
	// handlers: two literal resources and one parameterised, directly under
	// the service name
	kinds := r.IntN(4)     // 0: resources+access, 1: only resource handlers, 2: only access, 3: both
	mixed := chance(r, 40) // each pattern draws its handler kinds for itself
	mk := func(pattern string, typ int) PatSpec {
		p := PatSpec{Pattern: pattern, Type: typ}
		kinds := kinds
		if mixed {
			kinds = r.IntN(4)
		}
		if kinds != 2 {
			p.Get = true
			p.Calls = []string{"set"}
			if chance(r, 30) {
				p.Auths = []string{"login"}
			}
		}
		if kinds != 1 {
			p.Access = true
		}
		return p
	}
	c.Pats = []PatSpec{mk("m.$id", 1), mk("c", 2), mk("m.$id.sub", 1)}
	if chance(r, 40) {
		c.Pats = append(c.Pats, mk("deep.a.b.c", 1))
	}
	if c.SvcName != "" && chance(r, 30) {
		// the resource named like the service itself
		c.Pats = append(c.Pats, mk("", 1))
	}
	switch r.IntN(3) {
	case 0:
		q := ""
		c.QueueGroup = &q
	case 1:
		q := "grp"
		c.QueueGroup = &q
	}
	lists := [][]string{
		{">"}, {""}, {"", ">"}, {"m.>"}, {"m.>", "c"}, {"m.*", "c"}, {"m.*", "m.*.sub"}, {"m.>", "m.1"}, {"m.1", "m.1"}, {"c", "c", "m.>"},
		{"m.*.sub", "m.>"}, {">", "c"}, {"*"}, {"*.>"}, {"m.1", "m.2", "m.1.sub"}, {}, {"deep.>"}, {"deep.a.>", "deep.a.b.c"}, {"*.1"},
	}
	// and lists put together at random from an alphabet of entries (seeded
	// change C09w needed a plain entry next to a wildcarded one ending in >
	// that covers its methods, such as c and *.>, which the catalogue above
	// did not have)
	alphabet := []string{"c", "m.1", "m.2", "m.*", "m.>", "m.*.sub", "m.1.sub", "*", "*.>", "m.*.>", "*.1", "*.1.>", "*.*", "deep.>", "deep.a.>", "deep.*.b.c", ">", ""}
	randomList := func() []string {
		var l []string
		for i, n := 0, 1+r.IntN(3); i < n; i++ {
			l = append(l, pick(r, alphabet...))
		}
		return l
	}
	lists = append(lists, []string{"c", "*.>"}, []string{"m.1", "m.*.>"}, []string{"*", "*.>"})
	pickList := func() []string {
		if chance(r, 40) {
			return randomList()
		}
		return pick(r, lists...)
	}
	if chance(r, 60) {
		var own [2][]string
		own[0] = prefixed(c.SvcName, pickList()...)
		own[1] = prefixed(c.SvcName, pickList()...)
		if chance(r, 15) {
			own[0] = []string{}
		}
		if chance(r, 15) {
			own[1] = []string{}
		}
		if own[0] == nil {
			own[0] = []string{}
		}
		if own[1] == nil {
			own[1] = []string{}
		}
		if chance(r, 10) {
			own[0] = append(own[0], "other.>")
		}
		// one list explicit, the other left to the default (nil)
		switch r.IntN(8) {
		case 0:
			own[0] = nil
		case 1:
			own[1] = nil
		}
		c.Owned = &own
	}
	if c.Epochs > 1 && chance(r, 40) {
		// the second Serve call is made with other ownership lists
		var own2 [2][]string
		own2[0] = prefixed(c.SvcName, pick(r, lists...)...)
		own2[1] = prefixed(c.SvcName, pick(r, lists...)...)
		if own2[0] == nil {
			own2[0] = []string{}
		}
		if own2[1] == nil {
			own2[1] = []string{}
		}
		c.Owned2 = &own2
	}
	// end-to-end requests
	peer := ActorSpec{Name: "peer"}
	id := 0
	for i, n := 0, 2+r.IntN(5); i < n; i++ {
		p := &c.Pats[r.IntN(len(c.Pats))]
		id++
		op, ok := genRequest(r, c, p, id)
		if !ok {
			id--
			continue
		}
		op.Script = []string{"r:default"}
		peer.Ops = append(peer.Ops, op)
	}
	if chance(r, 40) {
		id++
		c.Actors = append(c.Actors, ActorSpec{Name: "prod1", Ops: []Op{{ID: id, Kind: "resetall"}}})
	}
	if chance(r, 30) {
		// an explicit Reset with lists of its own, possibly while the
		// service announces its ownership from another goroutine
		id++
		c.Actors = append(c.Actors, ActorSpec{Name: "prod3", Ops: []Op{{ID: id, Kind: "reset"}}})
	}
	if chance(r, 30) {
		// the connection is lost and restored: the service announces
		// itself again from the connection's callback goroutine
		id++
		c.Actors = append(c.Actors, ActorSpec{Name: "prod2", Ops: []Op{{ID: id, Kind: "reconnect"}}})
	}
	c.Actors = append(c.Actors, peer)
	return c
}

func (SubsScenario) DecodeCase(raw json.RawMessage) (interface{}, error) {
	c := &SvcCase{}
	err := json.Unmarshal(raw, c)
	return c, err
}

func (SubsScenario) Shrinks(c interface{}) []interface{} { return shrinkSvcCase(c.(*SvcCase)) }

func (SubsScenario) Execute(sim *sched.Sim, ci interface{}, prop string, race bool) *Outcome {
	c := ci.(*SvcCase)
	run := RunSvc(sim, c, race, func(e *Engine) {
		e.Conn.OnSubscribe = func(s *simconn.Sub, err error) {
			if !simconn.ValidSubscribeSubject(s.Subject) {
				e.H.Violate("C09", "invalid-subscription-subject", "", fmt.Sprintf("service %q subscribed to %q, which is not a valid NATS subject (client result: %v)", c.SvcName, s.Subject, err))
			}
		}
		e.OnQuiescent = func(ep int) { e.checkSubs(ep) }
	})
	if !race {
		run.CheckLifecycle()
		for ep, info := range run.E.Epochs {
			if info.ServeInvoke != 0 && info.Started == 0 && !run.E.subsChecked[ep] && (ep == 0 || run.E.Epochs[ep-1].ShutdownReturn != 0) && c.MidStop[ep] < 0 {
				// (an epoch that is shut down at a chosen step may be
				// stopped before it has come up)
				run.E.checkSubs(ep)
			}
		}
	}
	return run.Outcome(prop)
}

// ownedModel returns the expected owned resource and access pattern sets.
// ownedModelEp is ownedModel for the given epoch of the case.
func ownedModelEp(c *SvcCase, ep int) (resources, access []string) {
	if ep >= 1 && c.Owned2 != nil {
		cc := *c
		cc.Owned = c.Owned2
		return ownedModel(&cc)
	}
	return ownedModel(c)
}

func ownedModel(c *SvcCase) (resources, access []string) {
	anyRes, anyAcc := false, false
	for _, p := range c.Pats {
		if p.Get || len(p.Calls) > 0 || len(p.Auths) > 0 || p.New {
			anyRes = true
		}
		if p.Access {
			anyAcc = true
		}
	}
	def := func() []string {
		if c.SvcName == "" {
			return []string{">"}
		}
		return []string{c.SvcName, c.SvcName + ".>"}
	}
	if c.Owned != nil {
		resources, access = c.Owned[0], c.Owned[1]
	}
	if c.Owned == nil || resources == nil {
		resources = nil
		if anyRes {
			resources = def()
		}
	}
	if c.Owned == nil || access == nil {
		access = nil
		if anyAcc {
			access = def()
		}
	}
	return
}

func setOf(l []string) []string {
	m := map[string]bool{}
	for _, x := range l {
		m[x] = true
	}
	var out []string
	for x := range m {
		out = append(out, x)
	}
	sort.Strings(out)
	return out
}

// nameUnder reports whether the resource name lies under the owned pattern
// (token-wise, * one token, > one or more trailing tokens).
func nameUnder(pattern, name string) bool { return simconn.SubjectMatches(pattern, name) }

// probeNames builds concrete resource names inside, at the boundary of and
// outside the owned patterns.
func probeNames(owned []string, svc string) []string {
	m := map[string]bool{}
	add := func(s string) {
		if s != "" && !strings.Contains(s, "..") && !strings.HasPrefix(s, ".") && !strings.HasSuffix(s, ".") {
			m[s] = true
		}
	}
	for _, p := range owned {
		toks := strings.Split(p, ".")
		var base []string
		for _, t := range toks {
			switch t {
			case "*":
				base = append(base, "1")
			case ">":
				base = append(base, "x")
			default:
				base = append(base, t)
			}
		}
		n := strings.Join(base, ".")
		add(n)
		add(n + ".y")
		add(n + ".y.z")
		if len(base) > 1 {
			add(strings.Join(base[:len(base)-1], "."))
		}
		// near miss: change the last literal token
		alt := append([]string{}, base...)
		alt[len(alt)-1] = alt[len(alt)-1] + "q"
		add(strings.Join(alt, "."))
	}
	for _, s := range prefixed(svc, "", "m", "m.1", "m.2", "m.1.sub", "c", "c.d", "deep.a.b.c", "deep.a", "zzz") {
		add(s)
	}
	add("other")
	add("other.a")
	add("zz.top.a")
	var out []string
	for k := range m {
		out = append(out, k)
	}
	sort.Strings(out)
	return out
}

// checkSubs is the C09 oracle.
func (e *Engine) checkSubs(ep int) {
	if e.subsChecked == nil {
		e.subsChecked = map[int]bool{}
	}
	e.subsChecked[ep] = true
	c := e.Case
	conn := e.Epochs[ep].Conn
	resources, access := ownedModelEp(c, ep)
	resSet, accSet := setOf(resources), setOf(access)
	// (3) system.reset content
	pubs := conn.PubsSnapshot()
	serveTask := "serve"
	if ep > 0 {
		serveTask = "serve" + strconv.Itoa(ep+1)
	}
	// staleOld: a ResetAll (or the announcement after a reconnect) begun
	// before the ownership was changed carries the lists of its time, even
	// if it is published on the new connection
	staleOld := func(p *simconn.PubRec, resources, access []string) bool {
		if !(ep >= 1 && c.Owned2 != nil && p.Task != serveTask) {
			return false
		}
		oldRes, oldAcc := ownedModelEp(c, 0)
		stale := false
		for _, sub := range e.Subs {
			if sub != nil && sub.Actor == p.Task && sub.Invoke != 0 && sub.Invoke < e.Epochs[ep].ServeInvoke && (sub.Return == 0 || sub.Return > p.Seq) {
				stale = true
			}
		}
		if strings.HasPrefix(p.Task, "conncb") || strings.HasPrefix(p.Task, "serve") {
			stale = true // callbacks of the previous connection, the previous Serve call
		}
		return stale && fmt.Sprint(setOf(resources)) == fmt.Sprint(setOf(oldRes)) && fmt.Sprint(setOf(access)) == fmt.Sprint(setOf(oldAcc))
	}
	if len(resSet) == 0 && len(accSet) == 0 {
		// nothing to serve: Serve must fail without announcing anything
		for _, p := range pubs {
			var ev struct {
				Resources []string `json:"resources"`
				Access    []string `json:"access"`
			}
			if p.Subject == "system.reset" && json.Unmarshal(p.Data, &ev) == nil && staleOld(p, ev.Resources, ev.Access) {
				e.Sim.Probe("announcement begun before the ownership change, published after it")
				continue
			}
			e.H.Violate("C09", "reset-without-ownership", "", fmt.Sprintf("service owns nothing but published %s %s", p.Subject, p.Data))
			break
		}
		return
	}
	nreset, nresetServe := 0, 0
	customSeen := map[int]int{}
	for i, p := range pubs {
		if p.Subject != "system.reset" {
			if i == 0 && len(e.Epochs) == 1 {
				// (with one epoch the peer is held back until the service
				// has announced itself)
				e.H.Violate("C09", "first-message-not-reset", "", fmt.Sprintf("first message of the epoch is %s", p.Subject))
			}
			continue
		}
		var ev struct {
			Resources []string `json:"resources"`
			Access    []string `json:"access"`
		}
		json.Unmarshal(p.Data, &ev)
		// an explicit Reset(resources, access) of a scripted caller announces
		// exactly the lists it was given, once per call
		custom := false
		for _, sub := range e.Subs {
			if sub != nil && sub.Kind == "reset" && sub.Invoke != 0 && fmt.Sprint(ev.Resources) == fmt.Sprint([]string{"test.x." + strconv.Itoa(sub.Op.ID)}) && fmt.Sprint(ev.Access) == fmt.Sprint([]string{"test.y"}) {
				custom = true
				customSeen[sub.Op.ID]++
			}
		}
		if custom {
			continue
		}
		nreset++
		if p.Task == serveTask {
			nresetServe++
		}
		e.H.Evals++
		if staleOld(p, ev.Resources, ev.Access) {
			e.Sim.Probe("announcement begun before the ownership change, published after it")
			continue
		}
		if fmt.Sprint(setOf(ev.Resources)) != fmt.Sprint(resSet) || fmt.Sprint(setOf(ev.Access)) != fmt.Sprint(accSet) {
			e.H.Violate("C09", "reset-content", "", fmt.Sprintf("service %q owned=%v: system.reset announced resources=%v access=%v, expected resources=%v access=%v", c.SvcName, c.Owned, ev.Resources, ev.Access, resSet, accSet))
		}
	}
	if conn.Stats.SubErrors > 0 {
		// one of the service's subscriptions failed: it must stop instead of
		// announcing an ownership it cannot serve
		e.H.Evals++
		// (a ResetAll of another goroutine is let in as soon as the state is
		// started, which is before the subscriptions are made: only the
		// announcement of the Serve call itself counts here)
		if nresetServe > 0 {
			e.H.Violate("C09", "announced-despite-failed-subscription", "", fmt.Sprintf("service %q owned=%v: a subscription failed while starting, yet Serve published system.reset %d times; subscriptions: %v", c.SvcName, c.Owned, nresetServe, subjectsOf(conn)))
		}
		return
	}
	for id, n := range customSeen {
		if n > 1 {
			e.H.Violate("C09", "reset-content", "duplicated-explicit-reset", fmt.Sprintf("the lists of the explicit Reset call %d were announced %d times", id, n))
		}
	}
	if e.Epochs[ep].Started == 0 || nreset == 0 {
		// the service did not come up although it owns something
		e.H.Violate("C09", "service-did-not-start", "", fmt.Sprintf("service %q owned=%v (model: resources=%v access=%v) never announced itself; subscribe errors=%d, log=%v", c.SvcName, c.Owned, resSet, accSet, conn.Stats.SubErrors, e.errorLog()))
		return
	}
	// (1)(2) routing of concrete request subjects
	type probe struct {
		subject string
		owners  int
	}
	var probes []probe
	for _, n := range probeNames(append(append([]string{}, resSet...), accSet...), c.SvcName) {
		ro, ao := 0, 0
		for _, p := range resSet {
			if nameUnder(p, n) {
				ro++
			}
		}
		for _, p := range accSet {
			if nameUnder(p, n) {
				ao++
			}
		}
		probes = append(probes, probe{"get." + n, ro}, probe{"call." + n + ".set", ro}, probe{"call." + n + ".other", ro}, probe{"auth." + n + ".login", ro}, probe{"access." + n, ao})
	}
	for _, pr := range probes {
		e.H.Evals++
		n := len(conn.Route(pr.subject))
		switch {
		case pr.owners >= 1 && n == 0:
			e.H.Violate("C09", "owned-subject-not-subscribed", "", fmt.Sprintf("service %q owned=%v queue=%v: request subject %s lies under %d owned pattern(s) but no subscription matches it; subscriptions: %v", c.SvcName, c.Owned, qg(c), pr.subject, pr.owners, subjectsOf(conn)))
		case pr.owners == 1 && n != 1:
			e.H.Violate("C09", "redundant-subscription", redundancySignature(pr.subject, resSet, routedSubjects(conn, pr.subject)), fmt.Sprintf("service %q owned=%v queue=%v: request subject %s lies under one owned pattern but is delivered %d times; subscriptions: %v", c.SvcName, c.Owned, qg(c), pr.subject, n, subjectsOf(conn)))
		}
	}
	// end to end: a delivered request under a single owned pattern gets one response
	byInbox := map[string]int{}
	for _, p := range pubs {
		if !simconn.IsPreResponse(p.Data) {
			byInbox[p.Subject]++
		}
	}
	for _, s := range e.Subs {
		if s == nil || s.Kind != "req" || s.Invoke == 0 || s.Epoch != ep {
			continue
		}
		if s.Routed == 0 && len(e.Epochs) > 1 {
			// sent while the service was down between two epochs
			continue
		}
		rtype, rname, _ := SplitSubject(s.Op.Subject)
		set := resSet
		if rtype == "access" {
			set = accSet
		}
		owners := 0
		for _, p := range set {
			if nameUnder(p, rname) {
				owners++
			}
		}
		e.H.Evals++
		if sig := redundancySignature(s.Op.Subject, resSet, routedSubjects(e.Epochs[ep].Conn, s.Op.Subject)); owners == 1 && byInbox[s.Inbox] > 1 && byInbox[s.Inbox] == s.Routed && sig == "method-token-matched-by-full-wildcard" && rtype != "access" {
			// the redundant delivery of the known shape (a method call on
			// P itself caught by the subscription of P.>), seen from the
			// requester's side: the same finding as the redundant
			// subscription, identified by the same shape
			e.H.Violate("C09", "redundant-subscription", sig, fmt.Sprintf("request %s under one owned pattern got %d responses (routed to %d subscriptions: %v)", s.Op.Subject, byInbox[s.Inbox], s.Routed, routedSubjects(e.Epochs[ep].Conn, s.Op.Subject)))
		} else if owners == 1 && byInbox[s.Inbox] != 1 {
			e.H.Violate("C09", "response-count", "", fmt.Sprintf("request %s under one owned pattern got %d responses (routed to %d subscriptions)", s.Op.Subject, byInbox[s.Inbox], s.Routed))
		}
	}
}

func qg(c *SvcCase) string {
	if c.QueueGroup == nil {
		return "<default>"
	}
	return fmt.Sprintf("%q", *c.QueueGroup)
}

func subjectsOf(conn *simconn.Conn) []string {
	var out []string
	for _, s := range conn.AllSubs() {
		out = append(out, s.Subject)
	}
	return out
}

func (e *Engine) errorLog() []string {
	var out []string
	for _, r := range e.H.Recs {
		if r.Kind == "log.error" {
			out = append(out, r.Extra)
		}
	}
	return out
}

func init() { register(SubsScenario{}) }

// wildcardSwallowsMethod classifies a redundant delivery: for call and auth
// the subscription of an owned pattern P.> is <type>.P.>, whose full wildcard
// also matches <type>.P.<method>, the subject of a method call on resource P
// itself, which is not under P.>. If the request is such a subject the
// signature names that shape.
func wildcardSwallowsMethod(subject string, resSet []string) string {
	rtype, rname, method := SplitSubject(subject)
	if (rtype != "call" && rtype != "auth") || method == "" {
		return ""
	}
	for _, q := range resSet {
		if strings.HasSuffix(q, ".>") && !nameUnder(q, rname) && nameUnder(q, rname+"."+method) {
			return "method-token-matched-by-full-wildcard"
		}
	}
	return ""
}

func routedSubjects(conn *simconn.Conn, subject string) []string {
	var out []string
	for _, s := range conn.Route(subject) {
		out = append(out, s.Subject)
	}
	return out
}

// patternCovers reports whether every subject matched by subscription b is
// matched by subscription a.
func patternCovers(a, b string) bool {
	at, bt := strings.Split(a, "."), strings.Split(b, ".")
	for i, t := range at {
		if t == ">" {
			return len(bt) > i
		}
		if i >= len(bt) || bt[i] == ">" {
			return false
		}
		if t != "*" && t != bt[i] {
			return false
		}
	}
	return len(at) == len(bt)
}

// redundancySignature classifies a redundant delivery. If one of the
// subscriptions that match the subject is covered by another one, it is
// redundant outright; otherwise, if the overlap is the method token of a call
// or auth subject being matched by the full wildcard of another owned
// pattern, the signature names that shape.
func redundancySignature(subject string, resSet, matching []string) string {
	for i, a := range matching {
		for j, b := range matching {
			if i != j && patternCovers(a, b) {
				return "covered-subscription"
			}
		}
	}
	return wildcardSwallowsMethod(subject, resSet)
}
