package scen

import (
	"encoding/json"
	"fmt"
	"math/rand/v2"
	"strconv"
	"strings"
	"time"

	"verif/sim/model"
	"verif/sim/sched"
	"verif/sim/simconn"
)

// QueryEventScenario: query events answer each query once, end with nil
// once, and leak nothing (C15).
type QueryEventScenario struct{}

func (QueryEventScenario) Name() string { return "queryevent" }

func (QueryEventScenario) GenCase(r *rand.Rand, prop string) interface{} {
	c := &SvcCase{SvcName: "test", Gate: true, Epochs: 1, MidStop: []int{-1}}
	if chance(r, 15) {
		// shut down in the middle of the load, with query events active
		c.MidStop = []int{20 + r.IntN(150)}
	}
	c.Workers = pick(r, 1, 2, 3, 4)
	c.InCh = pick(r, 8, 1024)
	c.QueryMs = pick(r, 50, 1000, 3000)
	c.Pats = []PatSpec{
		{Pattern: "model.$id", Type: 1, Get: true, Calls: []string{"set"}, Group: pick(r, "", "mg", "g.${id}")},
		{Pattern: "coll", Type: 2, Get: true, Calls: []string{"set"}, Group: pick(r, "", "mg")},
		{Pattern: "any.$x", Type: 0, Get: true, Calls: []string{"set"}, Group: pick(r, "", "mg", "${x}")},
	}
	for i := range c.Pats {
		// handlers without a group: the query callbacks of one query event
		// may then overlap
		if chance(r, 25) {
			c.Pats[i].Parallel, c.Pats[i].Group = true, ""
		}
	}
	switch r.IntN(3) {
	case 0:
		c.Optional = []string{"*"}
	default:
		for _, p := range optionalPoints {
			if chance(r, 60) {
				c.Optional = append(c.Optional, p)
			}
		}
	}
	if chance(r, 15) {
		c.SubFailAt = 7 + r.IntN(3) // the service itself makes 6 subscriptions
	}
	id := 0
	peer := ActorSpec{Name: "peer"}
	nqe := 1 + r.IntN(4)
	for k := 0; k < nqe; k++ {
		p := &c.Pats[r.IntN(len(c.Pats))]
		id++
		rname := instantiate(r, c.FullPattern(p), true)
		qscript := pick(r, "y,model", "coll", "y,chg", "add,rm", "notfound", "invquery", "err", "errnomsg", "", "y", "p:reserr", "p:err", "p:str", "p:int", "timeout,model", "model,model")
		op := Op{ID: id, Kind: "req", Subject: "call." + rname + ".set", Script: append(yields(r, 1), "qe:"+qscript, "r:default")}
		peer.Ops = append(peer.Ops, op)
		// query requests at this event
		burst := 1 + r.IntN(4)
		if p.Parallel && burst < 2 {
			burst = 2
		}
		if chance(r, 8) {
			burst = 12 // more than the subscription channel holds
		}
		for i := 0; i < burst; i++ {
			id++
			q := Op{ID: id, Kind: "qreq", Args: []string{strconv.Itoa(k), "wait"}}
			switch x := r.IntN(100); {
			case x < 70:
			case x < 80:
				q.Payload = pick(r, "<empty>", "{}", "{\"query\":\"\"}")
			default:
				q.Payload = pick(r, "{bad", "[1]", "\"s\"", "{\"query\":5}")
			}
			if chance(r, 30) {
				q.Script = strings.Split(pick(r, "y,model", "coll", "chg,chg", "notfound", "p:str", "y,y", "err"), ",")
			} else if p.Parallel && chance(r, 60) {
				// callbacks that pause, so that those of one query event overlap
				q.Script = strings.Split(pick(r, "y,model", "y,coll", "y,chg,y", "y,y,notfound"), ",")
			}
			peer.Ops = append(peer.Ops, q)
			if chance(r, 25) {
				id++
				peer.Ops = append(peer.Ops, Op{ID: id, Kind: "pause"})
			}
		}
	}
	c.Actors = append(c.Actors, peer)
	if chance(r, 40) {
		id++
		a := ActorSpec{Name: "prod1"}
		for i, n := 0, 1+r.IntN(3); i < n; i++ {
			id++
			p := &c.Pats[r.IntN(len(c.Pats))]
			a.Ops = append(a.Ops, Op{ID: id, Kind: "with", RID: instantiate(r, c.FullPattern(p), true), Script: yields(r, 2)})
		}
		c.Actors = append(c.Actors, a)
	}
	return c
}

func (QueryEventScenario) DecodeCase(raw json.RawMessage) (interface{}, error) {
	c := &SvcCase{}
	err := json.Unmarshal(raw, c)
	return c, err
}

func (QueryEventScenario) Shrinks(c interface{}) []interface{} { return shrinkSvcCase(c.(*SvcCase)) }

func (QueryEventScenario) Execute(sim *sched.Sim, ci interface{}, prop string, race bool) *Outcome {
	c := ci.(*SvcCase)
	leakBase := libraryGoroutines()
	run := RunSvc(sim, c, race, nil)
	if !race {
		run.CheckOrder()
		run.CheckLifecycle()
		for _, v := range run.H.Viol {
			if v.Property == "C03" && v.Class == "panic" {
				v.Property = "C15"
			}
		}
		run.E.checkQueryEvents(leakBase)
		if c.MidStop[0] >= 0 && run.E.Epochs[0].ShutdownReturn != 0 {
			// the service was stopped while query events were active: their
			// timers still expire, and everything they allocated is released
			time.Sleep(time.Duration(c.QueryMs)*time.Millisecond + time.Second)
			for i := 0; i < 5000 && sim.Decide(nil); i++ {
			}
			run.H.Evals++
			if n := libraryGoroutines() - leakBase; n > 0 {
				run.H.Violate("C15", "leak", "after-shutdown", fmt.Sprintf("%d query listener goroutine(s) still exist one query duration after the service was shut down with query events active (%d query events were started)", n, len(run.E.QEs)))
			}
		}
	}
	o := run.Outcome(prop)
	o.Faults["query-subscribe-error"] = 0
	late, buffered := 0, 0
	for _, q := range run.E.QEs {
		if q.SubFailed {
			o.Faults["query-subscribe-error"]++
		}
	}
	for _, s := range run.E.Subs {
		if s != nil && s.Kind == "qreq" {
			if s.Dropped == "not-routed" {
				late++
			}
			if s.Dropped == "slow" {
				buffered++
			}
		}
	}
	o.Faults["query-request-after-drain"] = late
	o.Faults["query-request-dropped-channel-full"] = buffered
	return o
}

// qreqExpect predicts the response class of a query request.
func qreqExpect(payload string, script []string, typ int) (kind, code string) {
	switch payload {
	case "<empty>", "{}", "{\"query\":\"\"}":
		return "error", "system.internalError"
	case "":
	default:
		var x struct {
			Query string `json:"query"`
		}
		if json.Unmarshal([]byte(payload), &x) != nil {
			return "error", "system.internalError"
		}
	}
	events := false
	for _, a := range script {
		switch a {
		case "model":
			if typ == 2 {
				return "error", "system.internalError"
			}
			return "model", ""
		case "coll":
			if typ == 1 {
				return "error", "system.internalError"
			}
			return "collection", ""
		case "chg":
			if typ == 2 {
				return "error", "system.internalError"
			}
			events = true
		case "add", "rm":
			if typ == 1 {
				return "error", "system.internalError"
			}
			events = true
		case "notfound":
			return "error", "system.notFound"
		case "invquery":
			return "error", "system.invalidQuery"
		case "err":
			return "error", "test.qerr"
		case "errnomsg":
			return "error", "test.qnomsg"
		case "p:reserr":
			return "error", "test.qpanic"
		case "p:err", "p:str", "p:int":
			return "error", "system.internalError"
		}
	}
	if events {
		return "events", ""
	}
	return "noevents", ""
}

func classifyQueryResponse(data []byte) (kind, code string) {
	var r struct {
		Result *struct {
			Events     *[]json.RawMessage `json:"events"`
			Model      json.RawMessage    `json:"model"`
			Collection json.RawMessage    `json:"collection"`
		} `json:"result"`
		Error *struct {
			Code string `json:"code"`
		} `json:"error"`
	}
	if json.Unmarshal(data, &r) != nil {
		return "garbage", ""
	}
	switch {
	case r.Error != nil:
		return "error", r.Error.Code
	case r.Result == nil:
		return "garbage", ""
	case r.Result.Model != nil:
		return "model", ""
	case r.Result.Collection != nil:
		return "collection", ""
	case r.Result.Events != nil && len(*r.Result.Events) > 0:
		return "events", ""
	case r.Result.Events != nil:
		return "noevents", ""
	}
	return "garbage", ""
}

// checkQueryEvents is the C15 oracle, evaluated after the run has settled
// and the service was shut down.
func (e *Engine) checkQueryEvents(leakBase int) {
	h := e.H
	conn := e.Epochs[0].Conn
	pubs := conn.PubsSnapshot()
	byInbox := map[string][]*simconn.PubRec{}
	for _, p := range pubs {
		if !simconn.IsPreResponse(p.Data) {
			byInbox[p.Subject] = append(byInbox[p.Subject], p)
		}
	}
	dur := time.Duration(e.Case.QueryMs) * time.Millisecond
	cleanEnd := e.Epochs[0].ShutdownReturn != 0 && e.Case.MidStop[0] < 0
	for _, q := range e.QEs {
		h.Evals++
		// the query event announcement
		announced := 0
		for _, p := range pubs {
			if p.Subject == "event."+q.RName+".query" && p.Seq > q.StartSeq {
				var ev struct {
					Subject string `json:"subject"`
				}
				json.Unmarshal(p.Data, &ev)
				if ev.Subject == q.Subject && q.Subject != "" {
					announced++
				}
			}
		}
		if q.SubFailed {
			if len(q.NilCalls) != 1 {
				h.Violate("C15", "nil-call-count", "subscribe-failed", fmt.Sprintf("query event %d on %s: subscription failed, callback called with nil %d times, expected once", q.ID, q.RName, len(q.NilCalls)))
			}
			continue
		}
		if announced != 1 {
			h.Violate("C15", "query-event-not-announced", "", fmt.Sprintf("query event %d on %s: %d query events published with its subject", q.ID, q.RName, announced))
		}
		if !cleanEnd {
			continue
		}
		if len(q.NilCalls) != 1 {
			h.Violate("C15", "nil-call-count", "", fmt.Sprintf("query event %d on %s (group %q): callback called with nil %d times after expiry, expected exactly once", q.ID, q.RName, q.Group, len(q.NilCalls)))
			continue
		}
		if q.NilAt[0].Sub(q.Start) < dur {
			h.Violate("C15", "nil-call-early", "", fmt.Sprintf("query event %d: nil call %v after start, configured duration %v", q.ID, q.NilAt[0].Sub(q.Start), dur))
		}
		for _, cs := range q.Calls {
			// (a handler without a group has its callbacks run by any free
			// worker: the one given nil may start before one queued earlier)
			if cs > q.NilCalls[0] && !q.Parallel {
				h.Violate("C15", "call-after-nil", "", fmt.Sprintf("query event %d on %s (group %q): the callback was invoked with a query request after it had been invoked with nil", q.ID, q.RName, q.Group))
				break
			}
		}
	}
	// responses to query requests
	for _, s := range e.Subs {
		if s == nil || s.Kind != "qreq" || s.Invoke == 0 || !cleanEnd {
			continue
		}
		h.Evals++
		resp := byInbox[s.Inbox]
		if s.Delivered == 0 {
			if s.Dropped == "draining" {
				// handed to the channel after the query event expired: the
				// listener may still pass it on (then it is answered once)
				if len(resp) > 1 {
					h.Violate("C15", "query-response-count", "draining", fmt.Sprintf("query request %d delivered while the subscription was draining got %d responses", s.Op.ID, len(resp)))
				}
				continue
			}
			if len(resp) > 0 {
				h.Violate("C15", "response-to-undelivered-query", "", fmt.Sprintf("query request %d was %q but got %d responses", s.Op.ID, s.Dropped, len(resp)))
			}
			continue
		}
		var q *QEInfo
		for _, c := range e.QEs {
			if c.ID == s.Args0 {
				q = c
			}
		}
		if q == nil {
			continue
		}
		if len(resp) != 1 {
			h.Violate("C15", "query-response-count", "", fmt.Sprintf("query request %d (payload %q) delivered to active query event %d on %s got %d responses, expected exactly one", s.Op.ID, s.Op.Payload, q.ID, q.RName, len(resp)))
			continue
		}
		script := q.Script
		if len(s.Op.Script) > 0 {
			script = s.Op.Script
		}
		p, _, _ := model.Match(e.Pats, q.RName)
		typ := 0
		if p != nil {
			typ = e.Case.Pats[p.ID].Type
		}
		wk, wc := qreqExpect(s.Op.Payload, script, typ)
		gk, gc := classifyQueryResponse(resp[0].Data)
		if wk != gk || (wk == "error" && wc != gc) {
			h.Violate("C15", "query-response-kind", "", fmt.Sprintf("query request %d (payload %q, callback %v, resource type %d) got %s, expected %s %s", s.Op.ID, s.Op.Payload, script, typ, resp[0].Data, wk, wc))
		}
	}
	// release: nothing the query events allocated may remain
	if cleanEnd {
		h.Evals++
		if n := libraryGoroutines() - leakBase; n > 0 {
			h.Violate("C15", "leak", "(*queryEvent).startQueryListener", fmt.Sprintf("%d query listener goroutine(s) still exist after every query event expired and the service was shut down (%d query events were started)", n, len(e.QEs)))
		}
	}
}

func init() { register(QueryEventScenario{}) }
