package scen

import (
	"bufio"
	"encoding/json"
	"flag"
	"fmt"
	"math/rand/v2"
	"os"
	"runtime"
	"runtime/debug"
	"strconv"
	"strings"
	"sync/atomic"
	"testing"
	"testing/synctest"
	"time"

	"verif/sim/sched"
)

var (
	fRole     = flag.String("sim.role", "", "worker | runner | replay | shrink | selftest")
	fScenario = flag.String("sim.scenario", "core", "scenario name")
	fProperty = flag.String("sim.property", "", "property id whose oracle decides")
	fBase     = flag.Uint64("sim.base", 1, "VERIF_SEED")
	fFrom     = flag.Int("sim.from", 0, "first run index")
	fN        = flag.Int("sim.n", 1, "number of runs")
	fOut      = flag.String("sim.out", "", "output file (JSON lines)")
	fFile     = flag.String("sim.file", "", "replay file")
	fCheck    = flag.String("sim.check", "", "runner: property to check")
	fTier     = flag.String("sim.tier", "quick", "quick | thorough")
	fRace     = flag.Bool("sim.race", false, "race variant: no bookkeeping, race detector is the oracle")
	fHashOnly = flag.Bool("sim.hashonly", false, "worker: only output trace hashes")
	fMaxWall  = flag.Int("sim.maxwall", 0, "worker: stop after this many seconds of wall time")
	fVerbose  = flag.Bool("sim.verbose", false, "dump trace and history")
	fCaseFile = flag.String("sim.casefile", "", "worker: run this case (JSON) under seed-derived tapes instead of generating cases")
	fVerifDir = flag.String("sim.dir", "/verif", "verif directory")
)

func TestMain(m *testing.M) {
	flag.Parse()
	switch *fRole {
	case "runner":
		os.Exit(runnerMain())
	case "selftest":
		os.Exit(selftestMain())
	case "mutants":
		os.Exit(2)
	}
	os.Exit(m.Run())
}

// RunResult is one line of worker output.
type RunResult struct {
	Seed         uint64         `json:"seed"`
	Index        int            `json:"index"`
	Scenario     string         `json:"scenario"`
	Steps        uint64         `json:"steps"`
	SimNs        int64          `json:"sim_ns"`
	WallUs       int64          `json:"wall_us"`
	Hash         string         `json:"hash"`
	SchedHash    string         `json:"sched_hash"`
	Evals        int            `json:"evals"`
	Probes       map[string]int `json:"probes,omitempty"`
	Faults       map[string]int `json:"faults,omitempty"`
	States       []string       `json:"states,omitempty"`
	Violations   []*Violation   `json:"violations,omitempty"`
	Replay       *Replay        `json:"replay,omitempty"`
	Sample       interface{}    `json:"sample,omitempty"`
	Races        int            `json:"races,omitempty"`
	Inconclusive int            `json:"inconclusive,omitempty"`
}

// Replay is the replay file format.
type Replay struct {
	V         int              `json:"v"`
	Property  string           `json:"property"`
	Scenario  string           `json:"scenario"`
	RunSeed   uint64           `json:"run_seed"`
	Race      bool             `json:"race,omitempty"`
	Case      json.RawMessage  `json:"case"`
	Tape      []uint32         `json:"tape"`
	Violation *Violation       `json:"violation,omitempty"`
	Trace     []sched.TraceRec `json:"trace,omitempty"`
	Toolchain string           `json:"toolchain,omitempty"`
	Note      string           `json:"note,omitempty"`
}

var watchdogStep atomic.Uint64
var watchdogSim atomic.Pointer[sched.Sim]

func startWatchdog() {
	go func() {
		last := uint64(0)
		lastSim := (*sched.Sim)(nil)
		stalled := 0
		for {
			time.Sleep(5 * time.Second)
			s := watchdogSim.Load()
			if s == nil {
				continue
			}
			st := s.Step()
			if s == lastSim && st == last {
				stalled++
			} else {
				stalled = 0
			}
			last, lastSim = st, s
			if stalled >= 12 {
				buf := make([]byte, 1<<20)
				n := runtime.Stack(buf, true)
				fmt.Fprintf(os.Stderr, "WATCHDOG: simulation stalled at step %d (a goroutine is blocked non-durably, e.g. on a mutex held across a yield point)\n%s\n", st, buf[:n])
				os.Exit(3)
			}
		}
	}()
}

// executeRun runs one case with one tape in a fresh bubble.
func executeRun(t *testing.T, scn Scenario, c interface{}, tape *sched.Tape, prop string, race, keepTrace bool) (out *Outcome, sim *sched.Sim) {
	sim = sched.New(tape)
	sim.KeepTrace = keepTrace
	watchdogSim.Store(sim)
	body := func(t *testing.T) {
		defer func() {
			if v := recover(); v != nil {
				s := fmt.Sprint(v)
				if len(s) >= 8 && s[:8] == "deadlock" {
					return // leftover blocked goroutines: expected for leaks/hangs
				}
				panic(v)
			}
		}()
		synctest.Test(t, func(t *testing.T) {
			sim.MarkRoot()
			out = scn.Execute(sim, c, prop, race)
			sim.Stop()
		})
	}
	if race {
		// the testing package ends the goroutine of a test whose bubble saw
		// a race report; give each run a subtest of its own so that the
		// worker loop survives
		t.Run("run", body)
	} else {
		body(t)
	}
	watchdogSim.Store(nil)
	if out != nil && out.Post != nil {
		out.Post(out)
	}
	return out, sim
}

func hex(x uint64) string { return strconv.FormatUint(x, 16) }

func TestSim(t *testing.T) {
	debug.SetGCPercent(400)
	startWatchdog()
	switch *fRole {
	case "worker":
		workerMain(t)
	case "replay":
		os.Exit(replayMain(t))
	case "shrink":
		os.Exit(shrinkMain(t))
	default:
		t.Skip("no -sim.role given")
	}
}

func workerMain(t *testing.T) {
	scn := scenarios[*fScenario]
	if scn == nil {
		fmt.Fprintf(os.Stderr, "unknown scenario %q\n", *fScenario)
		os.Exit(2)
	}
	var w *bufio.Writer
	if *fOut != "" {
		f, err := os.Create(*fOut)
		if err != nil {
			fmt.Fprintln(os.Stderr, err)
			os.Exit(2)
		}
		defer f.Close()
		w = bufio.NewWriter(f)
	} else {
		w = bufio.NewWriter(os.Stdout)
	}
	defer w.Flush()
	enc := json.NewEncoder(w)
	start := time.Now()
	samples := 0
	for i := *fFrom; i < *fFrom+*fN; i++ {
		if *fMaxWall > 0 && time.Since(start) > time.Duration(*fMaxWall)*time.Second {
			break
		}
		seed := RunSeed(*fBase, scn.Name(), i)
		fmt.Fprintf(os.Stderr, "BEGIN %d %d\n", i, seed)
		rr := oneSeed(t, scn, seed, i, *fProperty, *fRace)
		if os.Getenv("SIM_DEBUG") != "" {
			fmt.Fprintf(os.Stderr, "AFTER %d failed=%v\n", i, t.Failed())
		}
		if *fHashOnly {
			rr = &RunResult{Seed: seed, Index: i, Hash: rr.Hash, Steps: rr.Steps}
		} else if samples < 3 {
			samples++
		} else {
			rr.Sample = nil
		}
		enc.Encode(rr)
		w.Flush()
	}
	fmt.Fprintf(os.Stderr, "END\n")
}

func oneSeed(t *testing.T, scn Scenario, seed uint64, index int, prop string, race bool) *RunResult {
	rng := rand.New(rand.NewPCG(seed, 0x5851f42d4c957f2d))
	c := scn.GenCase(rng, prop)
	if *fCaseFile != "" {
		raw, err := os.ReadFile(*fCaseFile)
		if err != nil {
			panic(err)
		}
		if c, err = scn.DecodeCase(raw); err != nil {
			panic(err)
		}
	}
	tape := sched.NewTape(splitmix64(seed))
	races0 := raceErrors()
	t0 := time.Now()
	out, sim := executeRun(t, scn, c, tape, prop, race, *fVerbose)
	if *fVerbose {
		cb, _ := json.Marshal(c)
		fmt.Fprintf(os.Stderr, "CASE %s\n", cb)
		for _, tr := range sim.Trace {
			fmt.Fprintf(os.Stderr, "  %4d %s\n", tr.Step, tr.Label)
		}
		if out != nil && out.Debug != nil {
			out.Debug(os.Stderr)
		}
	}
	rr := &RunResult{Seed: seed, Index: index, Scenario: scn.Name(), Steps: sim.Step(), WallUs: time.Since(t0).Microseconds(),
		Hash: hex(sim.Hash()), SchedHash: hex(sim.SchedHash()), Probes: sim.Probes}
	if n := sim.SpinParksCount(); n > 0 {
		sim.Probes["a mutex was not free: the goroutine waited at a yield point (lock.spin)"] += int(n)
	}
	if out != nil {
		rr.SimNs = int64(out.SimTime)
		rr.Evals = out.Evals
		rr.Faults = out.Faults
		rr.States = out.States
		rr.Violations = out.Violations
		rr.Sample = out.Sample
		rr.Inconclusive = out.Inconclusive
	}
	if race {
		if n := raceErrors() - races0; n > 0 {
			rr.Races = n
			rr.Violations = append(rr.Violations, &Violation{Property: "C16", Class: "data-race", Signature: "see race report", Step: sim.Step(), Detail: fmt.Sprintf("%d race reports in run", n)})
		}
	}
	if len(rr.Violations) > 0 {
		raw, _ := json.Marshal(c)
		rr.Replay = &Replay{V: 1, Property: prop, Scenario: scn.Name(), RunSeed: seed, Race: race, Case: raw, Tape: append([]uint32(nil), tape.Vals...), Violation: rr.Violations[0], Toolchain: runtime.Version()}
	}
	return rr
}

func loadReplay(path string) (*Replay, error) {
	b, err := os.ReadFile(path)
	if err != nil {
		return nil, err
	}
	rp := &Replay{}
	if err := json.Unmarshal(b, rp); err != nil {
		return nil, err
	}
	return rp, nil
}

// runReplay executes a replay file's case+tape and returns the violations.
func runReplay(t *testing.T, rp *Replay, keepTrace bool) (*Outcome, *sched.Sim, error) {
	scn := scenarios[rp.Scenario]
	if scn == nil {
		return nil, nil, fmt.Errorf("unknown scenario %q", rp.Scenario)
	}
	var c interface{}
	var tape *sched.Tape
	if len(rp.Case) == 0 || string(rp.Case) == "null" {
		// regenerate case and tape from the run seed
		rng := rand.New(rand.NewPCG(rp.RunSeed, 0x5851f42d4c957f2d))
		c = scn.GenCase(rng, rp.Property)
		tape = sched.NewTape(splitmix64(rp.RunSeed))
	} else {
		var err error
		c, err = scn.DecodeCase(rp.Case)
		if err != nil {
			return nil, nil, err
		}
		tape = sched.ReplayTape(rp.Tape)
	}
	races0 := raceErrors()
	out, sim := executeRun(t, scn, c, tape, rp.Property, rp.Race, keepTrace)
	if rp.Race && out != nil {
		if n := raceErrors() - races0; n > 0 {
			out.Violations = append(out.Violations, &Violation{Property: "C16", Class: "data-race", Signature: "see race report", Detail: fmt.Sprintf("%d race reports in run", n)})
		}
	}
	return out, sim, nil
}

// replayMain: exit 1 with a VIOLATION line if the file's violation class
// reproduces, 0 if the run is clean, 2 on trouble.
func replayMain(t *testing.T) int {
	rp, err := loadReplay(*fFile)
	if err != nil {
		fmt.Fprintln(os.Stderr, "replay:", err)
		return 2
	}
	out, sim, err := runReplay(t, rp, true)
	if err != nil || out == nil {
		fmt.Fprintln(os.Stderr, "replay:", err)
		return 2
	}
	fmt.Printf("replayed %s/%s seed=%d steps=%d hash=%s\n", rp.Scenario, rp.Property, rp.RunSeed, sim.Step(), hex(sim.Hash()))
	if *fVerbose {
		for _, tr := range sim.Trace {
			fmt.Fprintf(os.Stderr, "  %4d %s\n", tr.Step, tr.Label)
		}
		if out.Debug != nil {
			out.Debug(os.Stderr)
		}
	}
	for _, v := range out.Violations {
		if rp.Violation == nil || v.Key() == rp.Violation.Key() {
			fmt.Printf("reproduced: class=%s signature=%q step=%d\n  %s\n", v.Class, v.Signature, v.Step, firstLines(v.Detail, 6))
			fmt.Printf("VIOLATION property=%s replay=%s\n", v.Property, *fFile)
			return 1
		}
	}
	if len(out.Violations) > 0 {
		v := out.Violations[0]
		fmt.Printf("different violation: class=%s signature=%q\n  %s\n", v.Class, v.Signature, firstLines(v.Detail, 6))
		fmt.Printf("VIOLATION property=%s replay=%s\n", v.Property, *fFile)
		return 1
	}
	fmt.Println("no violation on replay")
	return 0
}

// firstLines returns the first n lines of s, each cut at 400 bytes (the
// replay file holds the detail in full).
func firstLines(s string, n int) string {
	parts := strings.SplitN(firstLinesRaw(s, n), "\n", n+1)
	for i, p := range parts {
		if len(p) > 400 {
			parts[i] = p[:400] + fmt.Sprintf(" ... (%d bytes)", len(p))
		}
	}
	return strings.Join(parts, "\n")
}

func firstLinesRaw(s string, n int) string {
	lines := 0
	for i := 0; i < len(s); i++ {
		if s[i] == '\n' {
			lines++
			if lines >= n {
				return s[:i]
			}
		}
	}
	return s
}
