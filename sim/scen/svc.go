package scen

import (
	"encoding/json"
	"errors"
	"fmt"
	"hash/fnv"
	"net/http"
	"strconv"
	"strings"
	"sync/atomic"
	"time"

	res "github.com/jirenius/go-res"
	nats "github.com/nats-io/nats.go"

	"verif/sim/model"
	"verif/sim/sched"
	"verif/sim/simconn"
)

// PatSpec is one registered resource pattern.
type PatSpec struct {
	Mounts   []string `json:"mounts,omitempty"` // Route() sub paths, outermost first
	Pattern  string   `json:"pattern"`          // pattern inside the innermost mux
	Group    string   `json:"group,omitempty"`
	Parallel bool     `json:"parallel,omitempty"`
	Type     int      `json:"type"` // 0 untyped, 1 model, 2 collection
	Access   bool     `json:"access,omitempty"`
	Get      bool     `json:"get,omitempty"`
	New      bool     `json:"new,omitempty"`
	Calls    []string `json:"calls,omitempty"`
	Auths    []string `json:"auths,omitempty"`
	Apply    string   `json:"apply,omitempty"`  // "", "ok", "fail", "failnotfound", "failreserr", "nochange"
	Listen   int      `json:"listen,omitempty"` // number of listeners
	// Cross: the Listeners map of this pattern's handler also has entries
	// for the other patterns of its Mux (listener 3 there); Extra3 marks
	// those patterns
	Cross  bool `json:"cross,omitempty"`
	Extra3 bool `json:"extra3,omitempty"`
	Nest   bool `json:"nest,omitempty"` // listener 0 emits a nested custom event on the same resource
}

// Op is one scripted operation of an actor.
type Op struct {
	ID      int      `json:"id"`
	Kind    string   `json:"kind"`
	Subject string   `json:"subject,omitempty"`
	RID     string   `json:"rid,omitempty"`
	Group   string   `json:"group,omitempty"`
	Payload string   `json:"payload,omitempty"`
	NoReply bool     `json:"noreply,omitempty"`
	Script  []string `json:"script,omitempty"`
	Args    []string `json:"args,omitempty"`
	Ms      int      `json:"ms,omitempty"`
	Ep      int      `json:"ep,omitempty"` // earliest epoch in which the op is performed
}

// ActorSpec is a harness task executing ops in order.
type ActorSpec struct {
	Name string `json:"name"`
	Ops  []Op   `json:"ops"`
}

// SvcCase is a generated test case for the service scenarios.
type SvcCase struct {
	SvcName  string      `json:"svc_name"`
	Workers  int         `json:"workers"`
	InCh     int         `json:"in_ch"`
	QueryMs  int         `json:"query_ms"`
	Pats     []PatSpec   `json:"pats"`
	Actors   []ActorSpec `json:"actors"`
	Epochs   int         `json:"epochs"`
	MidStop  []int       `json:"mid_stop"` // per epoch: <0 clean shutdown at quiescence, else earliest step for Shutdown
	Optional []string    `json:"optional"` // enabled optional yield points; ["*"] = all
	Gate     bool        `json:"gate"`     // hold actors until the service announced itself
	// HoldWorkers: the workers are not scheduled until the actor "burst" has
	// submitted this many callbacks (a backlog that deep never builds up
	// by chance)
	HoldWorkers int `json:"hold_workers,omitempty"`
	// OverlapServe: a stopped service is served again by another goroutine
	// as soon as Shutdown returned, whether or not the previous Serve call
	// has returned yet
	OverlapServe bool `json:"overlap_serve,omitempty"`
	// Owned2: the ownership lists are changed to these before the service is
	// served for the second time
	Owned2 *[2][]string `json:"owned2,omitempty"`
	// BlockingConn: the connection hands messages over with blocking sends
	// under a lock that its Close needs too (with a small in channel)
	BlockingConn bool `json:"blocking_conn,omitempty"`
	// LingerServe (with OverlapServe): the Serve call of a stopped epoch is
	// kept on its way out for as long as anything else can run
	LingerServe bool         `json:"linger_serve,omitempty"`
	LosePct     int          `json:"lose_pct,omitempty"`
	PubFailPct  int          `json:"pubfail_pct,omitempty"`
	SubFailAt   int          `json:"subfail_at,omitempty"` // n-th subscribe fails (1-based), 0 = never
	Owned       *[2][]string `json:"owned,omitempty"`
	QueueGroup  *string      `json:"queue_group,omitempty"`
}

// Submission is the oracle's view of one op.
type Submission struct {
	Op        *Op
	Actor     string
	Kind      string
	Group     string // reference group id
	Parallel  bool
	PatID     int // matched pattern (reference), -1 none
	Params    map[string]string
	Invoke    uint64
	Return    uint64
	Err       string
	Epoch     int
	Inbox     string
	Delivered uint64
	Dropped   string
	Routed    int
	Enqueued  uint64
	Starts    []uint64
	StartTask []string
	Ends      []uint64
	View      *ReqView // what the handler saw (C05)
	Args0     int      // query event id for qreq
	Handler   string   // which handler ran
}

// ReqView is what a handler was given.
type ReqView struct {
	Kind       string            `json:"kind"`
	PatID      int               `json:"pat"`
	RegMethod  string            `json:"reg_method"`
	RName      string            `json:"rname"`
	Method     string            `json:"method"`
	Params     map[string]string `json:"params"`
	Query      string            `json:"query"`
	CID        string            `json:"cid"`
	Token      string            `json:"token"`
	RawParams  string            `json:"raw_params"`
	Header     string            `json:"header"`
	Host       string            `json:"host"`
	RemoteAddr string            `json:"remote"`
	URI        string            `json:"uri"`
	IsHTTP     bool              `json:"is_http"`
	Group      string            `json:"group"`
}

// Epoch windows.
type EpochInfo struct {
	Conn           *simconn.Conn
	ServeInvoke    uint64
	Started        uint64 // seq of the system.reset published by Serve
	ServeReturn    uint64
	ServeErr       string
	ShutdownInvoke uint64
	ShutdownReturn uint64
	ShutdownErr    string
	SelfShutdown   bool
	Refused        int
}

// Engine runs a SvcCase on a real res.Service inside the simulator.
type Engine struct {
	timeActs     int    // time advances in a row (TimeActions)
	lastTimeStep uint64 // step of the last one
	Sim          *sched.Sim
	H            *Hist
	Case         *SvcCase
	Svc          *res.Service
	Pats         []model.Pat
	Subs         []*Submission // indexed by op id
	bySubject    map[string]*Submission
	Epochs       []*EpochInfo
	// serveTasks[i] calls Serve for epoch i
	serveTasks []*sched.Task
	// kept: the request last handled per resource name, kept past the
	// return of its handler (guarded by H.mu)
	kept map[string]res.Resource
	cur  atomic.Int32 // current epoch index
	Conn *simconn.Conn

	actorsDone atomic.Int32
	nActors    int
	ErrLog     []string
	subCount   int
	rng        uint64

	QEs                  []*QEInfo
	curReq               map[string]*Submission // by listener task
	idleNow              bool
	subsChecked          map[int]bool
	Mon                  *simconn.Monitor
	foreignShutdownEpoch int

	// Extra hooks for scenario specific behaviour.
	OnPublish func(p *simconn.PubRec)
	// OnQuiescent is called at a quiescent instant before a clean shutdown.
	OnQuiescent func(ep int)

	timeSlept time.Duration
	scratch   []groupScratch
}

type groupScratch struct {
	group string
	val   *int
}

// QEInfo tracks one query event started by a handler script.
type QEInfo struct {
	ID        int
	RName     string
	Group     string
	Parallel  bool // the resource's handler has no group: its callbacks are not ordered
	Subject   string
	Start     time.Time
	StartSeq  uint64
	NilCalls  []uint64
	Calls     []uint64 // seq of non-nil callback starts
	Expired   bool
	SubFailed bool
	NilAt     []time.Time
	Script    []string
}

type simLogger struct{ e *Engine }

func (l simLogger) Infof(format string, v ...interface{})  {}
func (l simLogger) Tracef(format string, v ...interface{}) {}
func (l simLogger) Errorf(format string, v ...interface{}) {
	l.e.H.Rec("log.error", "", 0, fmt.Sprintf(format, v...))
}

// FullPattern returns the fully qualified pattern of p.
func (c *SvcCase) FullPattern(p *PatSpec) string {
	parts := []string{}
	if c.SvcName != "" {
		parts = append(parts, c.SvcName)
	}
	parts = append(parts, p.Mounts...)
	if p.Pattern != "" {
		parts = append(parts, p.Pattern)
	}
	return strings.Join(parts, ".")
}

// NewEngine builds the service of the case. Must be called inside the bubble.
func NewEngine(sim *sched.Sim, h *Hist, c *SvcCase) *Engine {
	e := &Engine{Sim: sim, H: h, Case: c, bySubject: map[string]*Submission{}, foreignShutdownEpoch: -1, Mon: simconn.NewMonitor()}
	maxID := 0
	for ai := range c.Actors {
		for oi := range c.Actors[ai].Ops {
			if id := c.Actors[ai].Ops[oi].ID; id > maxID {
				maxID = id
			}
		}
	}
	e.Subs = make([]*Submission, maxID+1)
	for i := range c.Pats {
		p := &c.Pats[i]
		e.Pats = append(e.Pats, model.Pat{ID: i, Full: c.FullPattern(p), Group: p.Group, Parallel: p.Parallel})
	}
	for ai := range c.Actors {
		a := &c.Actors[ai]
		for oi := range a.Ops {
			op := &a.Ops[oi]
			s := &Submission{Op: op, Actor: a.Name, Kind: op.Kind, PatID: -1}
			e.Subs[op.ID] = s
			e.prepare(s)
		}
	}
	e.scratch = make([]groupScratch, 0, 64)

	svc := res.NewService(c.SvcName)
	svc.SetLogger(simLogger{e})
	if c.Workers > 0 {
		svc.SetWorkerCount(c.Workers)
	}
	if c.InCh > 0 {
		svc.SetInChannelSize(c.InCh)
	}
	if c.QueryMs > 0 {
		svc.SetQueryEventDuration(time.Duration(c.QueryMs) * time.Millisecond)
	}
	if c.Owned != nil {
		svc.SetOwnedResources(c.Owned[0], c.Owned[1])
	}
	if c.QueueGroup != nil {
		svc.SetQueueGroup(*c.QueueGroup)
	}
	// Build muxes: group patterns by mount path.
	muxes := map[string]*res.Mux{"": svc.Mux}
	var getMux func(mounts []string) *res.Mux
	getMux = func(mounts []string) *res.Mux {
		key := strings.Join(mounts, "/")
		if m, ok := muxes[key]; ok {
			return m
		}
		parent := getMux(mounts[:len(mounts)-1])
		m := parent.Route(mounts[len(mounts)-1], nil)
		muxes[key] = m
		return m
	}
	for i := range c.Pats {
		p := &c.Pats[i]
		m := getMux(p.Mounts)
		if p.Listen > 2 {
			// a listener registered before the handler exists
			i := i
			m.AddListener(p.Pattern, func(ev *res.Event) { e.listener(i, 2, ev) })
		}
		m.Handle(p.Pattern, e.options(i, p)...)
		if p.Listen > 1 {
			i := i
			m.AddListener(p.Pattern, func(ev *res.Event) { e.listener(i, 1, ev) })
		}
	}
	e.Svc = svc
	for i := 0; i < c.Epochs; i++ {
		ep := &EpochInfo{}
		ep.Conn = e.newConn(ep, i)
		e.Epochs = append(e.Epochs, ep)
	}
	e.Conn = e.Epochs[0].Conn
	return e
}

// prepare computes the reference expectations of a submission.
func (e *Engine) prepare(s *Submission) {
	op := s.Op
	switch op.Kind {
	case "req":
		rtype, rname, _ := SplitSubject(op.Subject)
		_ = rtype
		p, params, g := model.Match(e.Pats, rname)
		if p != nil {
			s.PatID, s.Params, s.Group, s.Parallel = p.ID, params, g, p.Parallel
		} else {
			s.Group = rname
		}
		s.Inbox = fmt.Sprintf("_INBOX.peer.%d", op.ID)
		if f, ok := model.ParseRequest(e.autoPayload(op)); ok && idFromQuery(f.Query) != op.ID {
			// the handler cannot identify this request by id; it is
			// identified by its subject, which the generator keeps unique
			// among such requests
			e.bySubject[op.Subject] = s
		}
	case "with", "withres", "emit", "emitscript":
		rname := op.RID
		if i := strings.IndexByte(rname, '?'); i >= 0 {
			rname = rname[:i]
		}
		p, params, g := model.Match(e.Pats, rname)
		if p != nil {
			s.PatID, s.Params, s.Group, s.Parallel = p.ID, params, g, p.Parallel
		}
	case "withgroup":
		s.Group = op.Group
		s.Parallel = op.Group == ""
	}
}

// SplitSubject splits a request subject per the RES protocol: type is up to
// the first dot; for call and auth the method follows the last dot.
func SplitSubject(subj string) (rtype, rname, method string) {
	i := strings.IndexByte(subj, '.')
	if i < 0 {
		return subj, "", ""
	}
	rtype, rname = subj[:i], subj[i+1:]
	if rtype == "call" || rtype == "auth" {
		j := strings.LastIndexByte(rname, '.')
		if j < 0 {
			return rtype, rname, ""
		}
		method = rname[j+1:]
		rname = rname[:j]
	}
	return
}

func idFromQuery(q string) int {
	if !strings.HasPrefix(q, "id=") {
		return 0
	}
	q = q[3:]
	if i := strings.IndexByte(q, '&'); i >= 0 {
		q = q[:i]
	}
	n, _ := strconv.Atoi(q)
	return n
}

type reqIface interface {
	res.Resource
	Type() string
	Method() string
	CID() string
	RawParams() json.RawMessage
	RawToken() json.RawMessage
	Header() map[string][]string
	Host() string
	RemoteAddr() string
	URI() string
	IsHTTP() bool
}

func (e *Engine) options(pi int, p *PatSpec) []res.Option {
	var opts []res.Option
	switch p.Type {
	case 1:
		if !p.Get {
			opts = append(opts, res.Model)
		}
	case 2:
		if !p.Get {
			opts = append(opts, res.Collection)
		}
	}
	if p.Access {
		opts = append(opts, res.Access(func(r res.AccessRequest) { e.handle(pi, "access", "", r) }))
	}
	if p.Get {
		switch p.Type {
		case 1:
			opts = append(opts, res.GetModel(func(r res.ModelRequest) { e.handle(pi, "get", "", r) }))
		case 2:
			opts = append(opts, res.GetCollection(func(r res.CollectionRequest) { e.handle(pi, "get", "", r) }))
		default:
			opts = append(opts, res.GetResource(func(r res.GetRequest) { e.handle(pi, "get", "", r) }))
		}
	}
	for _, m := range p.Calls {
		m := m
		opts = append(opts, res.Call(m, func(r res.CallRequest) { e.handle(pi, "call", m, r) }))
	}
	for _, m := range p.Auths {
		m := m
		opts = append(opts, res.Auth(m, func(r res.AuthRequest) { e.handle(pi, "auth", m, r) }))
	}
	if p.New {
		opts = append(opts, res.New(func(r res.NewRequest) { e.handle(pi, "new", "", r) }))
	}
	if p.Parallel {
		opts = append(opts, res.Parallel(true))
	}
	if p.Group != "" {
		opts = append(opts, res.Group(p.Group))
	}
	opts = append(opts, e.applyOptions(pi, p)...)
	if p.Listen > 0 || p.Cross {
		ls := map[string]func(*res.Event){}
		if p.Listen > 0 {
			ls[p.Pattern] = func(ev *res.Event) { e.listener(pi, 0, ev) }
		}
		if p.Cross {
			for j := range e.Case.Pats {
				q := &e.Case.Pats[j]
				if j != pi && q.Extra3 && strings.Join(q.Mounts, "/") == strings.Join(p.Mounts, "/") {
					j := j
					ls[q.Pattern] = func(ev *res.Event) { e.listener(j, 3, ev) }
				}
			}
		}
		opts = append(opts, res.OptionFunc(func(h *res.Handler) { h.Listeners = ls }))
	}
	return opts
}

// listener records what an event listener was handed.
func (e *Engine) listener(pi, li int, ev *res.Event) {
	var d string
	switch ev.Name {
	case "change":
		d = digest(ev.NewValues, ev.OldValues)
	case "add", "remove":
		d = digest(ev.Value, ev.Idx)
	case "create", "delete":
		d = digest(ev.Data)
	default:
		d = digest(ev.Payload)
	}
	e.H.Rec("listener", "", pi, fmt.Sprintf("%d %s %s %s", li, ev.Name, ev.Resource.ResourceName(), d))
	if li == 0 && e.Case.Pats[pi].Nest && ev.Name != "nested" {
		// a listener reacting with an event of its own on the same resource
		ev.Resource.Event("nested", map[string]interface{}{"n": 0})
	}
}

func digest(vs ...interface{}) string {
	b, err := json.Marshal(vs)
	if err != nil {
		return "!" + err.Error()
	}
	if len(b) > 300 {
		// long values (padding of kilobytes) by length and hash
		h := fnv.New64a()
		h.Write(b)
		return string(b[:80]) + fmt.Sprintf("...(%d bytes, fnv %x)", len(b), h.Sum64())
	}
	return string(b)
}

// scratchFor returns per-group unsynchronised scratch memory: handlers of one
// group write it without locks, so any C01 violation is also a data race.
//
//go:norace
func (e *Engine) scratchFor(group string) *int {
	e.H.mu.Lock()
	defer e.H.mu.Unlock()
	for i := range e.scratch {
		if e.scratch[i].group == group {
			return e.scratch[i].val
		}
	}
	if len(e.scratch) == cap(e.scratch) {
		return new(int)
	}
	v := new(int)
	e.scratch = append(e.scratch, groupScratch{group, v})
	return v
}

// handle is the body of every registered request handler.
func (e *Engine) handle(pi int, kind, regMethod string, r res.Resource) {
	var s *Submission
	forValue := false
	if gr, ok := r.(interface{ ForValue() bool }); ok && gr.ForValue() {
		forValue = true
	}
	if forValue {
		// nested Value(): runs inside another callback; no own submission.
		e.handleValue(pi, r)
		return
	}
	if id := idFromQuery(r.Query()); id > 0 && id < len(e.Subs) && e.Subs[id] != nil {
		s = e.Subs[id]
	} else if rq, ok := r.(reqIface); ok {
		subj := rq.Type() + "." + r.ResourceName()
		if rq.Method() != "" {
			subj += "." + rq.Method()
		}
		s = e.bySubject[subj]
	}
	if s == nil {
		e.H.Violate("C05", "unknown-request", kind, "handler invoked for a request the peer never sent: "+r.ResourceName())
		return
	}
	group := s.Group
	hk := kind
	if regMethod != "" {
		hk += ":" + regMethod
	}
	e.H.Enter(group, s.Op.ID, hk)
	e.noteStart(s, hk)
	if _, ok := r.(reqIface); ok {
		e.H.mu.Lock()
		if e.kept == nil {
			e.kept = map[string]res.Resource{}
		}
		e.kept[r.ResourceName()] = r
		e.H.mu.Unlock()
	}
	view := func() *ReqView {
		rq, ok := r.(reqIface)
		if !ok {
			return nil
		}
		hdr, _ := json.Marshal(rq.Header())
		params := map[string]string{}
		for k, v := range r.PathParams() {
			params[k] = v
		}
		return &ReqView{Kind: kind, PatID: pi, RegMethod: regMethod, RName: r.ResourceName(), Method: rq.Method(),
			Params: params, Query: r.Query(), CID: rq.CID(), Token: string(rq.RawToken()), RawParams: string(rq.RawParams()),
			Header: string(hdr), Host: rq.Host(), RemoteAddr: rq.RemoteAddr(), URI: rq.URI(), IsHTTP: rq.IsHTTP(), Group: r.Group()}
	}
	s.View = view()
	if group != "" {
		p := e.scratchFor(group)
		*p++
	}
	defer func() {
		// what the handler sees must not change while it runs (other
		// requests are decoded and routed meanwhile)
		if first, last := s.View, view(); first != nil && last != nil {
			a, _ := json.Marshal(first)
			b, _ := json.Marshal(last)
			if string(a) != string(b) {
				e.H.Violate("C05", "request-data-changed", "", fmt.Sprintf("request %d %s: the handler saw %s when it started and %s when it ended", s.Op.ID, s.Op.Subject, a, b))
			}
		}
		e.H.Exit(group, s.Op.ID, hk)
	}()
	e.runScript(s, s.Op.Script, r, kind)
}

func (e *Engine) noteStart(s *Submission, hk string) {
	if e.H.Off {
		return
	}
	e.H.mu.Lock()
	s.Starts = append(s.Starts, e.Sim.Seq())
	s.Handler = hk
	e.H.mu.Unlock()
}

func (e *Engine) handleValue(pi int, r res.Resource) {
	p := &e.Case.Pats[pi]
	gr := r.(res.GetRequest)
	switch p.Type {
	case 2:
		gr.Collection([]interface{}{"v", 1})
	default:
		gr.Model(map[string]interface{}{"v": 1})
	}
}

type unmarshalable struct{}

func (unmarshalable) MarshalJSON() ([]byte, error) { return nil, errors.New("cannot marshal") }

// unmarshalableRes fails to encode with an error of the library's own
// error type: the response is system.internalError all the same, the inner
// error is not the handler's outcome.
type unmarshalableRes struct{}

func (unmarshalableRes) MarshalJSON() ([]byte, error) { return nil, res.ErrNotFound }

// badValue returns a value that cannot be encoded.
func badValue(id int) interface{} {
	switch id % 4 {
	case 0:
		return unmarshalableRes{}
	case 1:
		// bytes that claim to be JSON and are not
		return json.RawMessage(`{"foo":"bar","list":[1,2}`)
	case 2:
		// bytes that would smuggle a second member into the response
		return json.RawMessage(`null,"error":{"code":"x.y","message":"z"}`)
	}
	return unmarshalable{}
}

// panicMarshal panics while the library encodes it.
type panicMarshal struct{ id int }

func (p panicMarshal) MarshalJSON() ([]byte, error) { panic("marshal panic " + strconv.Itoa(p.id)) }

// runScript interprets handler behaviour actions.
func (e *Engine) runScript(s *Submission, script []string, r res.Resource, kind string) {
	for _, a := range script {
		arg := ""
		if i := strings.IndexByte(a, ':'); i >= 0 {
			a, arg = a[:i], a[i+1:]
		}
		switch a {
		case "y":
			e.Sim.Yield("handler", r.ResourceName())
		case "t":
			ms, _ := strconv.Atoi(arg)
			r.(interface{ Timeout(time.Duration) }).Timeout(time.Duration(ms) * time.Millisecond)
		case "sleep":
			ms, _ := strconv.Atoi(arg)
			time.Sleep(time.Duration(ms) * time.Millisecond)
		case "ev":
			if pad := model.PadFor(s.Op.ID); pad != "" {
				r.Event(arg, map[string]interface{}{"n": s.Op.ID, "pad": pad})
			} else {
				r.Event(arg, map[string]interface{}{"n": s.Op.ID})
			}
		case "evraw":
			// a custom event whose payload is not valid JSON: it cannot be
			// encoded, so nothing is published
			r.Event(arg, json.RawMessage(`{"n":`+strconv.Itoa(s.Op.ID)+`,"list":[1,2}`))
		case "chg":
			r.ChangeEvent(map[string]interface{}{"k" + arg: s.Op.ID})
		case "chgempty":
			r.ChangeEvent(map[string]interface{}{})
		case "add":
			idx, _ := strconv.Atoi(arg)
			r.AddEvent("v"+strconv.Itoa(s.Op.ID), idx)
		case "rm":
			idx, _ := strconv.Atoi(arg)
			r.RemoveEvent(idx)
		case "create":
			r.CreateEvent(map[string]interface{}{"c": s.Op.ID})
		case "delete":
			r.DeleteEvent()
		case "reaccess":
			r.ReaccessEvent()
		case "resetev":
			r.ResetEvent()
		case "val":
			r.Value()
		case "pp":
			// (only requests with params are given this action)
			if pr, ok := r.(interface{ ParseParams(interface{}) }); ok {
				var v model.ParamsT
				pr.ParseParams(&v)
			}
		case "pt":
			if pr, ok := r.(interface{ ParseToken(interface{}) }); ok {
				var v model.TokenT
				pr.ParseToken(&v)
			}
		case "status":
			r.(interface{ SetResponseStatus(int) }).SetResponseStatus(402)
		case "statusif":
			if hr, ok := r.(interface {
				IsHTTP() bool
				SetResponseStatus(int)
			}); ok && hr.IsHTTP() {
				hr.SetResponseStatus(402)
			}
		case "header":
			h := r.(interface{ ResponseHeader() http.Header }).ResponseHeader()
			h["X-Test"] = []string{"v"}
		case "tokenev":
			r.(interface{ TokenEvent(interface{}) }).TokenEvent(map[string]int{"tok": s.Op.ID})
		case "qe":
			e.startQE(s, r, arg)
		case "r":
			e.reply(s, r, kind, arg)
		case "p":
			switch arg {
			case "reserr":
				panic(&res.Error{Code: "test.custom", Message: "Custom " + strconv.Itoa(s.Op.ID)})
			case "reserrnomsg":
				// an error with a code only still has a message member
				panic(&res.Error{Code: "test.nomsg"})
			case "reserrbad":
				// an error whose data cannot be encoded
				panic(&res.Error{Code: "test.bad", Message: "x", Data: badValue(s.Op.ID)})
			case "err":
				panic(errors.New("plain error " + strconv.Itoa(s.Op.ID)))
			case "wraperr":
				// an ordinary error that wraps one of the library's errors
				// is still an ordinary error
				panic(fmt.Errorf("wrapped %d: %w", s.Op.ID, res.ErrNotFound))
			case "str":
				panic("string panic " + strconv.Itoa(s.Op.ID))
			case "int":
				panic(42)
			case "nil":
				var np *int
				_ = *np
			}
		}
	}
}

func (e *Engine) reply(s *Submission, r res.Resource, kind, what string) {
	type okT interface{ OK(interface{}) }
	type errT interface{ Error(error) }
	switch what {
	case "default":
		switch kind {
		case "access":
			r.(res.AccessRequest).AccessGranted()
		case "get":
			if e.Case.Pats[s.ViewPat()].Type == 2 {
				r.(interface{ Collection(interface{}) }).Collection([]interface{}{"a", s.Op.ID})
			} else {
				r.(interface{ Model(interface{}) }).Model(map[string]interface{}{"id": s.Op.ID})
			}
		case "new":
			r.(res.NewRequest).New(res.Ref("test.created." + strconv.Itoa(s.Op.ID)))
		default:
			r.(okT).OK(map[string]interface{}{"id": s.Op.ID})
		}
	case "ok":
		r.(okT).OK(map[string]interface{}{"id": s.Op.ID, "s": "q\"uo\\te\n<é>", "t": model.TrickyFor(s.Op.ID)})
	case "oknil":
		r.(okT).OK(nil)
	case "model":
		r.(interface{ Model(interface{}) }).Model(map[string]interface{}{"id": s.Op.ID, "ref": res.Ref("test.ref"), "data": res.NewDataValue([]int{1, 2})})
	case "qmodel":
		r.(interface{ QueryModel(interface{}, string) }).QueryModel(map[string]interface{}{"id": s.Op.ID}, "q=1")
	case "coll":
		r.(interface{ Collection(interface{}) }).Collection([]interface{}{"a", s.Op.ID, nil, res.SoftRef("test.soft")})
	case "qcoll":
		r.(interface{ QueryCollection(interface{}, string) }).QueryCollection([]interface{}{s.Op.ID}, "q=2")
	case "notfound":
		r.(interface{ NotFound() }).NotFound()
	case "err":
		r.(errT).Error(&res.Error{Code: "test.err", Message: "Err " + strconv.Itoa(s.Op.ID) + model.TrickyFor(s.Op.ID), Data: map[string]int{"x": 1}})
	case "errnomsg":
		r.(errT).Error(&res.Error{Code: "test.nomsg"})
	case "plainerr":
		r.(errT).Error(errors.New("plain " + strconv.Itoa(s.Op.ID)))
	case "granted":
		r.(res.AccessRequest).AccessGranted()
	case "denied":
		r.(res.AccessRequest).AccessDenied()
	case "access":
		r.(res.AccessRequest).Access(true, "set,foo")
	case "accessnone":
		r.(res.AccessRequest).Access(false, "")
	case "new":
		r.(res.NewRequest).New(res.Ref("test.created." + strconv.Itoa(s.Op.ID)))
	case "resource":
		r.(interface{ Resource(string) }).Resource("test.res." + strconv.Itoa(s.Op.ID))
	case "invparams":
		r.(interface{ InvalidParams(string) }).InvalidParams("")
	case "invparamsmsg":
		r.(interface{ InvalidParams(string) }).InvalidParams("bad params " + strconv.Itoa(s.Op.ID) + model.TrickyFor(s.Op.ID))
	case "invquery":
		r.(interface{ InvalidQuery(string) }).InvalidQuery("")
	case "invquerymsg":
		r.(interface{ InvalidQuery(string) }).InvalidQuery("bad query " + strconv.Itoa(s.Op.ID) + model.TrickyFor(s.Op.ID))
	case "methodnotfound":
		r.(interface{ MethodNotFound() }).MethodNotFound()
	case "panicmarshal":
		switch kind {
		case "get":
			r.(interface{ Model(interface{}) }).Model(panicMarshal{s.Op.ID})
		case "access":
			r.(errT).Error(&res.Error{Code: "test.bad", Message: "x", Data: panicMarshal{s.Op.ID}})
		default:
			r.(okT).OK(panicMarshal{s.Op.ID})
		}
	case "unmarshalable":
		switch kind {
		case "get":
			r.(interface{ Model(interface{}) }).Model(badValue(s.Op.ID))
		case "access":
			r.(errT).Error(&res.Error{Code: "test.bad", Message: "x", Data: badValue(s.Op.ID)})
		default:
			r.(okT).OK(badValue(s.Op.ID))
		}
	}
}

// ViewPat returns the pattern index whose handler is running for s.
func (s *Submission) ViewPat() int {
	if s.View != nil {
		return s.View.PatID
	}
	if s.PatID >= 0 {
		return s.PatID
	}
	return 0
}

// ---- actors -------------------------------------------------------------

// Epoch returns the current epoch info.
func (e *Engine) Epoch() *EpochInfo {
	i := int(e.cur.Load())
	if i < len(e.Epochs) {
		return e.Epochs[i]
	}
	return nil
}

// connFor creates the connection of an epoch.
func (e *Engine) newConn(ep *EpochInfo, epoch int) *simconn.Conn {
	c := simconn.New(e.Sim)
	c.Blocking = e.Case.BlockingConn
	serveTask := "serve"
	if epoch > 0 {
		serveTask = "serve" + strconv.Itoa(epoch+1)
	}
	cs := e.Case
	nsub := 0
	c.FailSubscribe = func(subject string) error {
		nsub++
		if cs.SubFailAt > 0 && nsub == cs.SubFailAt {
			e.Sim.Probe("fault.subscribe-error")
			return errors.New("simulated subscribe failure")
		}
		return nil
	}
	npub := 0
	c.FailPublish = func(subject string) error {
		npub++
		if cs.PubFailPct > 0 && int(splitmix64(uint64(npub)*7919+uint64(cs.PubFailPct))%100) < cs.PubFailPct && subject != "system.reset" {
			e.Sim.Probe("fault.publish-error")
			return errors.New("simulated publish failure")
		}
		return nil
	}
	c.OnPublish = func(p *simconn.PubRec) {
		// an event begun before this Serve call - the system.reset of the
		// previous Serve call included - may be published on this
		// connection while the service is still starting; the started
		// window begins with the system.reset of this epoch's Serve call
		if ep.Started == 0 && p.Subject == "system.reset" && p.Task == serveTask {
			ep.Started = p.Seq
		}
		if cls, detail := e.Mon.Validate(p); cls != "" {
			e.H.Violate("C07", cls, "", detail)
		}
		if e.OnPublish != nil {
			e.OnPublish(p)
		}
	}
	return c
}

// StartActors launches the serve task, the lifecycle task and the scripted
// actors.
func (e *Engine) StartActors() {
	c := e.Case
	// one task per epoch: the task of epoch i+1 may call Serve once the Serve
	// call of epoch i has returned or - OverlapServe: the restart comes from
	// another goroutine than the one blocked in Serve - once the Shutdown
	// of epoch i has returned
	for i := 0; i < c.Epochs; i++ {
		i := i
		name := "serve"
		if i > 0 {
			name = "serve" + strconv.Itoa(i+1)
		}
		e.serveTasks = append(e.serveTasks, e.Sim.Go(name, func() {
			ep := e.Epochs[i]
			e.Sim.Yield("serve.wait", strconv.Itoa(i))
			if i == 1 && c.Owned2 != nil {
				// a program that restarts its service with other ownership
				// lists, as soon as the previous Serve call has returned
				e.Sim.Probe("ownership changed between two Serve calls")
				e.Svc.SetOwnedResources(c.Owned2[0], c.Owned2[1])
			}
			for try := 0; ; try++ {
				e.cur.Store(int32(i))
				e.H.SetEpoch(i)
				e.Conn = ep.Conn
				ep.ServeInvoke = e.H.Rec("serve.invoke", "", 0, "")
				err := e.Svc.Serve(ep.Conn)
				e.Sim.Yield("call.return", "serve")
				if err != nil && err.Error() == "res: service is not stopped" && try < 50 {
					e.H.Rec("serve.retry", "", 0, err.Error())
					if try >= 2 {
						// the first tries race with the tail of Shutdown;
						// later ones wait until it can have finished, so
						// that a schedule staying with this task cannot use
						// up the tries
						e.Sim.Yield("serve.retrywait", strconv.Itoa(i))
					}
					continue
				}
				if err != nil {
					ep.ServeErr = err.Error()
				}
				ep.ServeReturn = e.H.Rec("serve.return", "", 0, ep.ServeErr)
				break
			}
		}))
	}
	e.Sim.Go("life", func() {
		for i := 0; i < c.Epochs; i++ {
			ep := e.Epochs[i]
			for try := 0; ; try++ {
				e.Sim.Yield("life.wait", strconv.Itoa(i))
				if ep.ServeReturn != 0 {
					// the epoch ended without this task (self shutdown
					// after a failed subscribe)
					ep.SelfShutdown = true
					break
				}
				inv := e.H.Rec("shutdown.invoke", "", 0, "")
				ep.ShutdownInvoke = inv
				err := e.Svc.Shutdown()
				executing := e.H.Executing()
				e.Sim.Yield("call.return", "shutdown")
				if err != nil {
					ep.ShutdownInvoke = 0
					e.H.Rec("shutdown.refused", "", 0, err.Error())
					ep.Refused++
					continue
				}
				ep.ShutdownReturn = e.H.Rec("shutdown.return", "", 0, "")
				if n := executing; n > 0 {
					e.H.Violate("C03", "callback-running-after-shutdown", "", fmt.Sprintf("%d callbacks executing when Shutdown returned", n))
				}
				break
			}
		}
	})
	e.nActors = len(c.Actors)
	for ai := range c.Actors {
		a := &c.Actors[ai]
		e.Sim.Go(a.Name, func() {
			defer e.actorsDone.Add(1)
			for oi := range a.Ops {
				op := &a.Ops[oi]
				e.Sim.Yield("actor.op", strconv.Itoa(op.ID))
				e.doOp(a, op)
			}
		})
	}
}

// ServeDone reports whether every Serve call has returned.
func (e *Engine) ServeDone() bool {
	for _, t := range e.serveTasks {
		if !t.IsDone() {
			return false
		}
	}
	return true
}

// ActorsDone reports whether every scripted actor finished its script.
func (e *Engine) ActorsDone() bool { return int(e.actorsDone.Load()) == e.nActors }

func (e *Engine) autoPayload(op *Op) []byte {
	if op.Payload != "" {
		if op.Payload == "<empty>" {
			return nil
		}
		return []byte(op.Payload)
	}
	return []byte(fmt.Sprintf(`{"query":"id=%d","cid":"c%d","params":{"n":%d},"token":{"t":%d}}`, op.ID, op.ID, op.ID, op.ID))
}

func (e *Engine) doOp(a *ActorSpec, op *Op) {
	s := e.Subs[op.ID]
	s.Epoch = int(e.cur.Load())
	switch op.Kind {
	case "req":
		conn := e.Conn
		reply := s.Inbox
		if op.NoReply {
			reply = ""
		}
		s.Invoke = e.H.Rec("req.send", s.Group, op.ID, op.Subject)
		if reply != "" {
			f, _ := model.ParseRequest(e.autoPayload(op))
			e.Mon.Inboxes[reply] = simconn.InboxInfo{IsHTTP: f.IsHTTP}
		}
		ds := conn.Inject(op.Subject, reply, e.autoPayload(op))
		s.Routed = len(ds)
		for _, d := range ds {
			d.ID = op.ID
		}
	case "with":
		s.Invoke = e.H.Rec("submit.invoke", s.Group, op.ID, "with "+op.RID)
		err := e.Svc.With(op.RID, func(r res.Resource) { e.callback(s, "with", r) })
		e.Sim.Yield("call.return", "with")
		if err != nil {
			s.Err = err.Error()
		}
		s.Return = e.H.Rec("submit.return", s.Group, op.ID, s.Err)
	case "withres":
		r, err := e.Svc.Resource(op.RID)
		if err != nil {
			s.Err = err.Error()
			s.Invoke = e.H.Rec("submit.invoke", s.Group, op.ID, "withres(nomatch) "+op.RID)
			s.Return = e.H.Rec("submit.return", s.Group, op.ID, s.Err)
			return
		}
		// every other call passes a request that an earlier handler kept:
		// a request stays valid as a Resource after its handler returned
		rname := op.RID
		if i := strings.IndexByte(rname, '?'); i >= 0 {
			rname = rname[:i]
		}
		e.H.mu.Lock()
		if k := e.kept[rname]; k != nil && op.ID%2 == 0 {
			r = k
		}
		e.H.mu.Unlock()
		s.Invoke = e.H.Rec("submit.invoke", s.Group, op.ID, "withres "+op.RID)
		e.Svc.WithResource(r, func() {
			if got := r.ResourceName(); got != rname {
				e.H.Violate("C05", "kept-resource-changed", "", fmt.Sprintf("a resource obtained for %s names %s when it is used in a later WithResource callback", rname, got))
			}
			e.callback(s, "withres", r)
		})
		e.Sim.Yield("call.return", "withres")
		s.Return = e.H.Rec("submit.return", s.Group, op.ID, "")
	case "withgroup":
		s.Invoke = e.H.Rec("submit.invoke", s.Group, op.ID, "withgroup "+op.Group)
		e.Svc.WithGroup(op.Group, func(*res.Service) { e.callback(s, "withgroup", nil) })
		e.Sim.Yield("call.return", "withgroup")
		s.Return = e.H.Rec("submit.return", s.Group, op.ID, "")
	case "reset":
		s.Invoke = e.H.Rec("call.invoke", "", op.ID, "reset")
		e.Svc.Reset([]string{"test.x." + strconv.Itoa(op.ID)}, []string{"test.y"})
		e.Sim.Yield("call.return", "reset")
		s.Return = e.H.Rec("call.return", "", op.ID, "reset")
	case "reconnect":
		s.Invoke = e.H.Rec("call.invoke", "", op.ID, "reconnect")
		e.Conn.Reconnected()
		s.Return = e.H.Rec("call.return", "", op.ID, "reconnect")
	case "resetall":
		s.Invoke = e.H.Rec("call.invoke", "", op.ID, "resetall")
		e.Svc.ResetAll()
		e.Sim.Yield("call.return", "resetall")
		s.Return = e.H.Rec("call.return", "", op.ID, "resetall")
	case "token":
		s.Invoke = e.H.Rec("call.invoke", "", op.ID, "token")
		e.Svc.TokenEvent("cid"+strconv.Itoa(op.ID), map[string]int{"id": op.ID})
		e.Sim.Yield("call.return", "token")
		s.Return = e.H.Rec("call.return", "", op.ID, "token")
	case "tokenid":
		s.Invoke = e.H.Rec("call.invoke", "", op.ID, "tokenid")
		e.Svc.TokenEventWithID("cid"+strconv.Itoa(op.ID), "tid"+strconv.Itoa(op.ID), nil)
		e.Sim.Yield("call.return", "tokenid")
		s.Return = e.H.Rec("call.return", "", op.ID, "tokenid")
	case "tokenreset":
		s.Invoke = e.H.Rec("call.invoke", "", op.ID, "tokenreset")
		e.Svc.TokenReset("auth.test.renew", "tid"+strconv.Itoa(op.ID))
		e.Sim.Yield("call.return", "tokenreset")
		s.Return = e.H.Rec("call.return", "", op.ID, "tokenreset")
	case "emit":
		// Event emission from a foreign goroutine, as store.Handler does
		// from store OnChange callbacks.
		s.Invoke = e.H.Rec("call.invoke", "", op.ID, "emit "+op.RID)
		r, err := e.Svc.Resource(op.RID)
		if err == nil {
			if e.Case.Pats[s.PatID].Type == 2 {
				r.AddEvent("emit"+strconv.Itoa(op.ID), 0)
			} else {
				r.ChangeEvent(map[string]interface{}{"emit": op.ID})
			}
		} else {
			s.Err = err.Error()
		}
		e.Sim.Yield("call.return", "emit")
		s.Return = e.H.Rec("call.return", "", op.ID, "emit")
	case "emitscript":
		r, err := e.Svc.Resource(op.RID)
		if err != nil {
			s.Err = err.Error()
			return
		}
		s.Invoke = e.H.Rec("call.invoke", "", op.ID, "emitscript "+op.RID)
		e.runScript(s, op.Script, r, "emit")
		e.Sim.Yield("call.return", "emitscript")
		s.Return = e.H.Rec("call.return", "", op.ID, "emitscript")
	case "qreq":
		e.doQueryReq(s, op)
	case "pause":
		// nothing: one more scheduling point
	}
}

// callback is the body of With/WithResource/WithGroup callbacks.
func (e *Engine) callback(s *Submission, kind string, r res.Resource) {
	group := s.Group
	e.H.Enter(group, s.Op.ID, kind)
	e.noteStart(s, kind)
	if group != "" {
		p := e.scratchFor(group)
		*p++
	}
	defer e.H.Exit(group, s.Op.ID, kind)
	if r == nil {
		for _, a := range s.Op.Script {
			if a == "y" {
				e.Sim.Yield("handler", "group:"+group)
			}
		}
		return
	}
	e.runScript(s, s.Op.Script, r, "with")
}

// DeliverActions is the provider of transport actions.
func (e *Engine) DeliverActions() []sched.Action {
	conn := e.Conn
	if conn == nil || conn.PendingInbound() == 0 {
		return nil
	}
	acts := []sched.Action{{Label: "deliver", Do: func() { e.deliver(conn, false) }}}
	if e.Case.LosePct > 0 {
		acts = append(acts, sched.Action{Label: "lose", Do: func() { e.deliver(conn, true) }})
	}
	return acts
}

func (e *Engine) deliver(conn *simconn.Conn, lose bool) {
	d := conn.DeliverHead(lose)
	if d == nil {
		return
	}
	if strings.HasPrefix(d.Dropped, "panic: ") {
		detail := "delivering a message to the service's subscription channel panicked (" + d.Dropped + "): the channel was closed while the connection was still open and delivering; with nats.go this panic is raised on the connection's goroutine and kills the process"
		e.H.Violate("C03", "panic", "delivery: "+strings.TrimPrefix(d.Dropped, "panic: "), detail)
		if d.Sub != nil && e.isQuerySub(d.Sub.Subject) {
			e.H.Violate("C15", "panic", "delivery: "+strings.TrimPrefix(d.Dropped, "panic: "), "query event subscription: "+detail)
		}
	}
	if d.ID > 0 && d.ID < len(e.Subs) && e.Subs[d.ID] != nil && d.Sub != nil {
		s := e.Subs[d.ID]
		if e.isQuerySub(d.Sub.Subject) {
			if d.Dropped == "" && d.Sub.Draining {
				// handed over while the subscription was draining: the
				// query event has expired, it may or may not be answered
				e.Sim.Probe("query request delivered to a draining subscription")
				s.Dropped = "draining"
				e.H.Rec("qdeliver", s.Group, d.ID, "draining")
				return
			}
			if d.Dropped == "" {
				s.Delivered = d.Seq
			} else {
				s.Dropped = d.Dropped
			}
			e.H.Rec("qdeliver", s.Group, d.ID, d.Dropped)
			return
		}
		if d.Dropped == "" {
			if s.Delivered != 0 {
				e.H.Rec("deliver.dup", s.Group, d.ID, d.Sub.Subject)
			}
			s.Delivered = d.Seq
		} else if s.Delivered == 0 {
			s.Dropped = d.Dropped
		}
		if d.Dropped == "slow" {
			e.Sim.Probe("fault.slow-consumer-drop")
		}
		if d.Dropped == "lost" {
			e.Sim.Probe("fault.request-lost")
		}
		e.H.Rec("deliver", s.Group, d.ID, d.Dropped)
	}
}

func (e *Engine) isQuerySub(subject string) bool {
	for _, q := range e.QEs {
		if q.Subject == subject {
			return true
		}
	}
	return false
}

// Observe is installed as the hook observer: it records when the listener has
// finished enqueueing the current request.
func (e *Engine) Observe(t *sched.Task, point, arg string) {}

var _ = nats.ErrBadSubject

func init() {
	// the predefined error values handlers answer with are exported
	// variables of the library; the model takes their messages from there
	for _, e := range []*res.Error{res.ErrNotFound, res.ErrMethodNotFound, res.ErrAccessDenied, res.ErrInvalidParams, res.ErrInvalidQuery} {
		model.StdMsg[e.Code] = e.Message
	}
}
