package scen

func init() {
	addCheck(&CheckSpec{
		Property: "C01", Level: "exploration", OwnsPanics: false,
		Rule:   "core scenario: one res.Service with generated pattern set (literal, $tag, >, mounted to depth 2; group absent/literal/${tag}/Parallel), 1-32 workers, in-channel 1-1024, a peer sending requests, 0-2 producer goroutines calling With/WithResource/WithGroup (group strings chosen to collide with resource-name groups and tag expansions), query events with query requests and expiry, optional Shutdown/Serve cycles.",
		Oracle: "every callback does enter(group), yields, exit(group) with the reference group id computed by the harness's own matcher; occupancy of every non-parallel group must be <= 1 at every enter.",
		Scen:   []ScenBudget{{"core", 24000, 400000}, {"queryevent", 4000, 120000}},
		Probes: []string{"enqueue onto the registered work item of a busy group", "parallel handlers overlapped", "fault.slow-consumer-drop"},
	})
	addCheck(&CheckSpec{
		Property: "C02", Level: "exploration",
		Rule:   "same runs as C01 (core scenario, and the queryevent scenario for query-request callbacks).",
		Oracle: "per group, callback start order must be a linear extension of submission precedence (requests by delivery order; With* calls by return-before-invoke; request-before-With when the listener finished enqueueing before the call); every submission starts at most once, and exactly once at quiescence before a clean Shutdown; With returns an error and runs nothing iff the reference matcher finds no handler.",
		Scen:   []ScenBudget{{"core", 24000, 400000}, {"queryevent", 4000, 120000}},
	})
	addCheck(&CheckSpec{
		Property: "C03", Level: "exploration", OwnsPanics: true,
		Rule:   "core scenario with the lifecycle mix: Shutdown at a tape-chosen step while producers, the peer, Reset/ResetAll/TokenEvent/TokenEventWithID/TokenReset callers and foreign-goroutine event emitters are live; 1-3 Serve/Shutdown cycles on one Service.",
		Oracle: "(tier B runs, real nats.go: Serve returns after Shutdown and the connection is closed when Shutdown returns.) bounded progress once scripted operations stop (Shutdown and Serve return within 60 simulated seconds of the last enabled action); no panic in any task or library goroutine; at Shutdown's return no callback is executing and none starts later in that epoch; connection closed exactly once per epoch; calls entirely inside the started window take effect, calls entirely inside the stopped window have none.",
		Scen:   []ScenBudget{{"core", 24000, 500000}, {"tierb", 200, 10000}},
		Probes: []string{"submission parked between started-check and lock while Shutdown closes the queue", "event parked before its publish while Shutdown runs", "worker woke to a nil queue (closing)", "Shutdown drops work that is queued but not started", "enqueue onto the registered work item of a busy group", "fault.slow-consumer-drop", "parallel handlers overlapped"},
	})
	addCheck(&CheckSpec{
		Property: "C04", Level: "exploration", OwnsPanics: true,
		Rule:   "requests scenario: a peer sends access/get/call/auth requests (call.<r>.new with and without New handler, * fallbacks, unknown methods and resources, empty/null/malformed payloads, HTTP flag on/off, missing reply subject) at many resources concurrently; handlers follow generated behaviour scripts (reply kinds, pre-responses, events, nested Value, meta setters, double reply, no reply, panic with *Error/error/string/int/nil-deref before or after replying, unmarshalable values); slow-consumer drops, request loss and publish errors are injected.",
		Oracle: "at quiescence, on each delivered request's unique reply inbox the number of publish attempts that are not pre-responses is exactly 1 (0 only for access without access handler or a request without reply subject); undelivered requests get nothing; no handler panic kills a goroutine.",
		Scen:   []ScenBudget{{"requests", 18000, 400000}},
	})
	addCheck(&CheckSpec{
		Property: "C05", Level: "exploration",
		Rule:   "same runs as C04 (requests scenario); resource names with dots and method-like tokens are weighted up.",
		Oracle: "refinement against an executable dispatch model (own subject split, own matcher, handler selection with new/* rules, not-found/method-not-found/bad-JSON rules) and a response model walking the handler script (reply kinds with exact payloads, meta on HTTP, panic and Error mapping, missing reply); the request view recorded by the handler (rname, method, path params, query, cid, token, params, header, host, remote address, URI, HTTP flag, group) must equal what the peer sent for that inbox while other requests are in flight; responses are also parsed with resprot.ParseResponse.",
		Scen:   []ScenBudget{{"requests", 18000, 400000}},
	})
	addCheck(&CheckSpec{
		Property: "C08", Level: "exploration",
		Rule:   "events scenario: resources with every combination of present/absent/failing/no-change apply handlers and 0-3 listeners (registered before the handler, through Handler.Listeners, and after it; on root and mounted muxes); request handlers, With/WithResource callbacks and foreign goroutines run scripts interleaving change/add/remove/create/delete/reaccess/custom events with pre-responses and the reply, including invalid calls (wrong resource type, negative index, reserved or malformed names, empty change).",
		Oracle: "one global log receives entries from apply handlers, from SimConn at publish time and from listeners, stamped with event sequence number and task; for each callback the entries made on its task between enter and exit must equal the predicted sequence (apply, publish, listeners in registration order with the call's values and the apply handler's return; nothing for failed/empty/invalid calls; pre-responses and reply in program order); no event publish or listener entry may lie outside its callback's window or on another task.",
		Scen:   []ScenBudget{{"events", 18000, 400000}},
	})
	addCheck(&CheckSpec{
		Property: "C09", Level: "exploration",
		Rule:   "subs scenario: swarm over service name (empty, simple, dotted), ownership nil or explicit lists (overlapping, nested, duplicated, wildcarded, empty, foreign entries), handler-kind combinations, queue group default/empty/named; the service is served on the simulated broker, which enforces NATS subject rules at subscribe time; ResetAll from a foreign goroutine.",
		Oracle: "for generated concrete request subjects inside, at the boundary of and outside every owned pattern and for each request type: a subject under >=1 owned pattern is routed to >=1 subscription, under exactly one owned pattern to exactly one (and gets exactly one response end to end), under none to none; every subscribed subject is a valid NATS subject; the first message of the epoch and every later system.reset list exactly the owned patterns of the ownership model (defaults: name and name.> per handler kind actually registered, > when the name is empty).",
		Scen:   []ScenBudget{{"subs", 12000, 200000}, {"tierb", 300, 15000}},
	})
	addCheck(&CheckSpec{
		Property: "C11", Level: "exploration", OwnsPanics: true,
		Rule:        "storelin scenario: 2-4 client goroutines execute random read/write transactions (Value, Exists, Create, Update, Delete in any order and number, then Close) over ids a,b,c and the empty id, heavily contended on one id; mockstore, and badgerstore on real BadgerDB (typed/untyped, prefix empty/set/dotted, BeforeChange veto, wrong-type values); yields between calls and at the instrumented points before/inside/after each database transaction.",
		Oracle:      "(1) porcupine linearizability check of the recorded history (invoke/return stamped with the simulator's event sequence numbers, partitioned by id) against a KV model of the documented contract; Unknown is counted as inconclusive, never reported; (2) call-by-call error contract (Create on existing id fails with an error that is or wraps store.ErrDuplicate; Update/Delete/Value on a missing id with store.ErrNotFound); (3) isolation: no call of another client's transaction on the id returns while a write transaction is open, and for mockstore the real lock is probed with TryLock/TryRLock after every step against the harness's transaction table; (4) callbacks: exactly one OnChange per successful mutation on the caller's task with before equal to the previous after per id, none for failed operations; final reads included in the history.",
		Scen:        []ScenBudget{{"storelin", 10000, 120000}},
		Assumptions: []string{"jirenius/keylock is replaced by a scheduler-visible stub with the same API and RW semantics", "mockstore transactions are entered only when the harness's own table says they will not block (sync.RWMutex waits are invisible to synctest); the real lock is probed after every step"},
	})
	addCheck(&CheckSpec{
		Property: "C10", Level: "exploration", OwnsPanics: true,
		Rule:        "storecoh scenario: store.Handler over mockstore and over badgerstore on real BadgerDB; model and collection resources; no transformer / IDTransformer / custom transform (dropping a property, mapping members to references); with and without default; 1-3 rounds in which 1-3 mutator goroutines run create/update/delete transactions (values from primitives, references, soft references, data values; collections over a 3-letter alphabet up to length 4), contended on one id, with yields inside transactions (badgerstore) and at every publish, and gets racing the mutations.",
		Oracle:      "a reference RES client cache (own code) fetches every resource at a quiescent instant, then applies in connection order every event published for the resource during the round (change with delete actions, add/remove with index range checks at application time, create/delete flipping the missing state) and must equal a fresh get at the next quiescent instant; an event that cannot be applied, a missing-state mismatch or stale data is a violation.",
		Scen:        []ScenBudget{{"storecoh", 10000, 120000}},
		Assumptions: []string{"mockstore transactions are atomic steps (no yield while its lock is held); interleavings inside transactions are explored on badgerstore with the keylock stub"},
	})
	addCheck(&CheckSpec{
		Property: "C13", Level: "exploration", OwnsPanics: true,
		Rule:        "index scenario: badgerstore + QueryStore with two indexes on real BadgerDB (prefix empty or set); 1-3 mutator goroutines create/update/delete values whose keys come from a small printable alphabet (including unindexed nil keys, keys that are prefixes of each other, ids of different lengths); the real taskqueue index worker is parked at the start of each index task and after its commit; in query rounds every mutator is frozen between transactions while the index worker stays schedulable, and a query task calls Flush() then Query for generated (index, prefix incl. separator bytes, filter, offset, limit incl. negative and zero, reverse).",
		Oracle:      "result equals the reference: ids of the model values whose key has the prefix and passes the filter, sorted bytewise by (key, id), reversed if asked, then windowed; exact because the mutators are frozen.",
		Scen:        []ScenBudget{{"index", 8000, 100000}},
		Probes:      []string{"Flush called while an index task is parked"},
		Assumptions: []string{"index keys never contain the separator byte 0x00 (prefixes do)"},
	})
	addCheck(&CheckSpec{
		Property: "C14", Level: "exploration",
		Rule:   "index scenario (store layer): as C13 plus an OnQueryChange recorder evaluating queries and QueryChange.Events for generated queries inside the callback, on the index worker. qsub scenario (handler layer): store.QueryHandler on a simulated service over badgerstore+QueryStore: an ordinary resource over the whole index, ordinary resources parameterised by a key prefix with an AffectedResources callback, and a query resource; a reference client holds seven results, re-gets on system.reset and sends a query request on the subject announced by a query event; 1-2 mutator goroutines, the index worker and the query listeners are interleaved by the tape. qmock scenario (handler layer, event path): the same resources plus model-typed ones (IDToRIDModelTransformer) over a reference query store written for the harness whose query changes describe themselves by add/remove events instead of a reset, which badgerstore never does; the client applies the events of ordinary resources and of query responses (one query event at a time per result, requests optionally sent late) and must end up with what a fresh get returns.",
		Oracle: "exactly one query-change callback per mutation that changes some index key and none otherwise, per id in mutation order, after the mutation; inside the callback a query for the new key already returns the id and for the old key no longer does; Events(q) reports affected whenever the reference result of q differs between the index state before and after the update, and unaffected whenever neither old nor new key matches q's prefix and filter; handler layer: at quiescence every result the client holds (updated only through the notifications it received) equals a fresh get.",
		Scen:   []ScenBudget{{"index", 6000, 100000}, {"qsub", 3000, 60000}, {"qmock", 3000, 60000}},
	})
	addCheck(&CheckSpec{
		Property: "C12", Level: "fault_enumeration", OwnsPanics: true,
		Rule:        "crash scenario: a sequential workload (create, update, delete, Init with 0-3 seeds (6-9 in the small-transaction configuration, where Init must fail as a whole with ErrTxnTooBig), re-Init, RebuildIndexes, Flush, dirty restart) on badgerstore + QueryStore over real BadgerDB with prefix empty, simple or dotted; a crash image (copy of the database directory taken while every goroutine of the bubble is durably blocked) is taken at occurrences of the instrumented points before/inside/after each mutation commit, inside Init, at the start and after the commit of each index task and after RebuildIndexes' drop (quick tier: a seeded sample of occurrences; thorough: every occurrence), plus a torn variant in which an unacknowledged suffix of the value log is zeroed; dirty restarts continue the run on an image.",
		Oracle:      "each image is reopened with a fresh BadgerDB: every id holds the acked model's value, the id with a mutation in flight holds the old or the new value, an interrupted Init is all-or-none with a consistent marker; then the restart procedure (Init with the same seeds, RebuildIndexes) runs on the image: seeds appear exactly when the marker was absent and the id is missing, never again after a completed Init, and every generated index query agrees with the reference scan of the stored values.",
		Scen:        []ScenBudget{{"crash", 600, 20000}},
		Assumptions: []string{"BadgerDB is opened with its default SyncWrites=true; loss of acknowledged but unsynced data and disk errors below the transaction level (short or torn writes inside a commit) are not simulated (no VFS seam in BadgerDB v1.6.2); a disk that refuses a whole commit is (DB.Update of the scratch badger copy)", "a copy of the directory while all goroutines are blocked equals the image a process kill leaves; power loss is modelled by zeroing a suffix of the value log beyond the last acknowledged mutation"},
	})
	addCheck(&CheckSpec{
		Property: "C15", Level: "exploration", OwnsPanics: true,
		Rule:        "queryevent scenario: call handlers start 1-4 query events per run on resources in shared groups; the peer sends query requests (valid, missing query, malformed JSON) at tape-chosen instants relative to expiry: well inside the window, buffered in the subscription channel when the timer fires, after the drain was requested, more than the channel holds at once; callbacks reply with model/collection/events/errors, panic with each value kind or do nothing; the query subscription fails for some; expiry by advancing the simulated clock (50 ms, 1 s, 3 s durations). Tier B (real nats.go over the broker stub): query events overlapping and in sequence, and in four cases of ten one more that expires while the broker refuses the service (an outage), after which the client's own subscription table must be back at its size before the query events.",
		Oracle:      "each query request delivered while the event was active gets exactly one response of the predicted kind (error for missing query or malformed payload); callbacks run under the C01 occupancy counter of the resource's group; after expiry the callback was invoked with nil exactly once, not before the configured duration, and no invocation with a request starts after it; a failed subscription yields exactly one nil call and no query event; after everything settled and the service was shut down no goroutine started by the go-res root package is left; core scenario (restarts): no two query events of a run, across Serve calls, are announced with the same subject.",
		Scen:        []ScenBudget{{"queryevent", 12000, 250000}, {"core", 3000, 60000}, {"tierb", 300, 15000}},
		Assumptions: []string{"tier A cannot observe Subscription.Drain on the zero-value subscription it hands out; the server-side effect of Drain is emulated at the instrumented point directly after the Drain call"},
	})
	addCheck(&CheckSpec{
		Property: "C19", Level: "exploration", OwnsPanics: true,
		Rule:        "sendreq scenario (tier A): resprot.SendRequest runs as a task against a scripted peer on the simulated clock: up to 5 messages with delays of 0 ms to 4 s drawn from valid results, error and resource responses, garbage, empty payload, timeout pre-responses and malformed pre-responses; messages that arrive back to back while the requester has not started waiting (inbox channel capacity 1, drop on full as nats.go does); failing subscribe or publish; nil, object and unmarshalable request values; 0-2 extension callbacks. Arrival instants and deadlines never coincide (10 ms grid versus 5 ms offsets), so timer and inbox are never ready together.",
		Oracle:      "a timed reference model walks the script and predicts the returned response (kind, error code, result, resource id), the exact simulated instant of return and the durations handed to the extension callbacks; all three must match; SendRequest must return within 80 simulated seconds.",
		Scen:        []ScenBudget{{"sendreq", 18000, 400000}, {"tierb", 300, 15000}},
		Assumptions: []string{"tier A hands out a zero-value subscription, so the release of the inbox subscription is not observable here"},
	})
	addCheck(&CheckSpec{
		Property: "C20", Level: "exploration", OwnsPanics: true,
		Rule:   "legacy scenario: a simulated service whose model and collection resources use middleware.BadgerDB or resbadger.Model/Collection (typed and untyped, with and without default) on real BadgerDB; 1-3 producer goroutines per round submit With callbacks that emit scripted change (incl. delete actions and unchanged values), add, remove, create and delete events (incl. out-of-range indexes, create on existing, change on missing) on resources in different groups, so applies interleave on different workers against one database; crash images at sampled decision points; clean reopen at the end.",
		Oracle: "a reference model folds the applicable events over the initial/default value: per event, an inapplicable one must publish nothing (and leave storage unchanged), an applicable one publishes exactly one message, an unchanged change publishes nothing; change listeners get the previous stored values as old values and delete listeners the previous stored value; Value() inside the callback, get at every quiescent instant and get after reopening the database equal the fold; in a crash image each resource holds the fold of the returned events with the one in flight either included or not.",
		Scen:   []ScenBudget{{"legacy", 4000, 80000}},
	})
	addCheck(&CheckSpec{
		Property: "C16", Level: "exploration", Race: true, OwnsPanics: false,
		Rule:        "race scenario built with -race: one service with per-resource groups, a shared group and Parallel resources (handlers write per-group scratch memory without locks), requests and query requests injected by the scheduler, 1-2 producer goroutines calling With/WithResource/WithGroup/QueryEvent, Reset/ResetAll/TokenEvent/TokenEventWithID/TokenReset and emitting events from foreign goroutines, optionally store.Handler and store.QueryHandler over badgerstore + QueryStore on real BadgerDB with mutator goroutines, an index querier calling Query and Flush, the library's own MemLogger or StdLogger, Shutdown at tape-chosen steps and up to two Serve/Shutdown cycles. The harness is hidden from the detector: its synchronisation is wrapped in runtime.RaceDisable, its shared state lives in //go:norace functions without maps, and the scheduler goroutine never acquires from tasks.",
		Oracle:      "the Go race detector's error count must not rise during a run; each report is attributed to its run and classified by the top go-res frame of its two stacks; reports without a go-res frame are counted as third-party, reports entirely inside the harness are simulator trouble (exit 2), never violations.",
		Scen:        []ScenBudget{{"race", 4000, 40000}},
		Assumptions: []string{"the race detector only sees conflicting accesses of the interleavings actually executed; serial execution is compensated by hiding the scheduler's hand-offs, so any two conflicting accesses the library leaves unordered in an explored schedule are reported"},
	})
	addCheck(&CheckSpec{
		Property: "C07", Level: "exploration",
		Rule:   "transport monitor on every Publish of the requests, core, events, queryevent, storecoh, qsub, qmock and legacy scenarios: results/models/collections/event payloads that are nil, nested, need escaping or cannot be marshalled; every meta combination on HTTP and non-HTTP requests; marshal failures and publish errors as injected faults.",
		Oracle: "independent validator written from the RES protocol text: subject is a publishable NATS subject of a documented form (reply inbox handed out by the peer, event.<rid>.<name>, system.reset, system.tokenReset, conn.<cid>.token); payload has the documented shape for its kind (response with exactly one of result/resource/error, error with string code and message, meta only for HTTP requests, pre-response timeout:\"<ms>\", per-event fields).",
		Scen:   []ScenBudget{{"requests", 5000, 300000}, {"core", 2000, 150000}, {"events", 2000, 150000}, {"queryevent", 1000, 60000}, {"storecoh", 600, 30000}, {"qsub", 400, 20000}, {"qmock", 400, 20000}, {"legacy", 400, 20000}},
	})
}
