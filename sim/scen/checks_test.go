package scen

func init() {
	addCheck(&CheckSpec{
		Property: "C01", Level: "exploration", OwnsPanics: false,
		Rule:   "core scenario: one res.Service with generated pattern set (literal, $tag, >, mounted to depth 2; group absent/literal/${tag}/Parallel), 1-32 workers, in-channel 1-1024, a peer sending requests, 0-2 producer goroutines calling With/WithResource/WithGroup (group strings chosen to collide with resource-name groups and tag expansions), query events with query requests and expiry, optional Shutdown/Serve cycles.",
		Oracle: "every callback does enter(group), yields, exit(group) with the reference group id computed by the harness's own matcher; occupancy of every non-parallel group must be <= 1 at every enter.",
		Scen:   []ScenBudget{{"core", 6000, 400000}},
	})
	addCheck(&CheckSpec{
		Property: "C02", Level: "exploration",
		Rule:   "same runs as C01 (core scenario).",
		Oracle: "per group, callback start order must be a linear extension of submission precedence (requests by delivery order; With* calls by return-before-invoke; request-before-With when the listener finished enqueueing before the call); every submission starts at most once, and exactly once at quiescence before a clean Shutdown; With returns an error and runs nothing iff the reference matcher finds no handler.",
		Scen:   []ScenBudget{{"core", 6000, 400000}},
	})
	addCheck(&CheckSpec{
		Property: "C03", Level: "exploration", OwnsPanics: true,
		Rule:   "core scenario with the lifecycle mix: Shutdown at a tape-chosen step while producers, the peer, Reset/ResetAll/TokenEvent/TokenEventWithID/TokenReset callers and foreign-goroutine event emitters are live; 1-3 Serve/Shutdown cycles on one Service.",
		Oracle: "bounded progress once scripted operations stop (Shutdown and Serve return within 60 simulated seconds of the last enabled action); no panic in any task or library goroutine; at Shutdown's return no callback is executing and none starts later in that epoch; connection closed exactly once per epoch; calls entirely inside the started window take effect, calls entirely inside the stopped window have none.",
		Scen:   []ScenBudget{{"core", 8000, 500000}},
	})
	addCheck(&CheckSpec{
		Property: "C04", Level: "exploration", OwnsPanics: true,
		Rule:   "requests scenario: a peer sends access/get/call/auth requests (call.<r>.new with and without New handler, * fallbacks, unknown methods and resources, empty/null/malformed payloads, HTTP flag on/off, missing reply subject) at many resources concurrently; handlers follow generated behaviour scripts (reply kinds, pre-responses, events, nested Value, meta setters, double reply, no reply, panic with *Error/error/string/int/nil-deref before or after replying, unmarshalable values); slow-consumer drops, request loss and publish errors are injected.",
		Oracle: "at quiescence, on each delivered request's unique reply inbox the number of publish attempts that are not pre-responses is exactly 1 (0 only for access without access handler or a request without reply subject); undelivered requests get nothing; no handler panic kills a goroutine.",
		Scen:   []ScenBudget{{"requests", 6000, 400000}},
	})
	addCheck(&CheckSpec{
		Property: "C05", Level: "exploration",
		Rule:   "same runs as C04 (requests scenario); resource names with dots and method-like tokens are weighted up.",
		Oracle: "refinement against an executable dispatch model (own subject split, own matcher, handler selection with new/* rules, not-found/method-not-found/bad-JSON rules) and a response model walking the handler script (reply kinds with exact payloads, meta on HTTP, panic and Error mapping, missing reply); the request view recorded by the handler (rname, method, path params, query, cid, token, params, header, host, remote address, URI, HTTP flag, group) must equal what the peer sent for that inbox while other requests are in flight; responses are also parsed with resprot.ParseResponse.",
		Scen:   []ScenBudget{{"requests", 6000, 400000}},
	})
	addCheck(&CheckSpec{
		Property: "C07", Level: "exploration",
		Rule:   "transport monitor on every Publish of the requests and core scenarios: results/models/collections/event payloads that are nil, nested, need escaping or cannot be marshalled; every meta combination on HTTP and non-HTTP requests; marshal failures and publish errors as injected faults.",
		Oracle: "independent validator written from the RES protocol text: subject is a publishable NATS subject of a documented form (reply inbox handed out by the peer, event.<rid>.<name>, system.reset, system.tokenReset, conn.<cid>.token); payload has the documented shape for its kind (response with exactly one of result/resource/error, error with string code and message, meta only for HTTP requests, pre-response timeout:\"<ms>\", per-event fields).",
		Scen:   []ScenBudget{{"requests", 5000, 300000}, {"core", 3000, 200000}},
	})
}
