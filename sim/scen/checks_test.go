package scen

func init() {
	addCheck(&CheckSpec{
		Property: "C01", Level: "exploration", OwnsPanics: false,
		Rule:   "core scenario: one res.Service with generated pattern set (literal, $tag, >, mounted to depth 2; group absent/literal/${tag}/Parallel), 1-32 workers, in-channel 1-1024, a peer sending requests, 0-2 producer goroutines calling With/WithResource/WithGroup (group strings chosen to collide with resource-name groups and tag expansions), query events with query requests and expiry, optional Shutdown/Serve cycles.",
		Oracle: "every callback does enter(group), yields, exit(group) with the reference group id computed by the harness's own matcher; occupancy of every non-parallel group must be <= 1 at every enter.",
		Scen:   []ScenBudget{{"core", 6000, 400000}},
	})
	addCheck(&CheckSpec{
		Property: "C02", Level: "exploration",
		Rule:   "same runs as C01 (core scenario).",
		Oracle: "per group, callback start order must be a linear extension of submission precedence (requests by delivery order; With* calls by return-before-invoke; request-before-With when the listener finished enqueueing before the call); every submission starts at most once, and exactly once at quiescence before a clean Shutdown; With returns an error and runs nothing iff the reference matcher finds no handler.",
		Scen:   []ScenBudget{{"core", 6000, 400000}},
	})
	addCheck(&CheckSpec{
		Property: "C03", Level: "exploration", OwnsPanics: true,
		Rule:   "core scenario with the lifecycle mix: Shutdown at a tape-chosen step while producers, the peer, Reset/ResetAll/TokenEvent/TokenEventWithID/TokenReset callers and foreign-goroutine event emitters are live; 1-3 Serve/Shutdown cycles on one Service.",
		Oracle: "bounded progress once scripted operations stop (Shutdown and Serve return within 60 simulated seconds of the last enabled action); no panic in any task or library goroutine; at Shutdown's return no callback is executing and none starts later in that epoch; connection closed exactly once per epoch; calls entirely inside the started window take effect, calls entirely inside the stopped window have none.",
		Scen:   []ScenBudget{{"core", 8000, 500000}},
	})
}
