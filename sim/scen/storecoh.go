package scen

import (
	"encoding/json"
	"errors"
	"fmt"
	"math/rand/v2"
	"os"
	"sort"
	"strconv"
	"strings"
	"sync"

	"github.com/dgraph-io/badger"
	res "github.com/jirenius/go-res"
	"github.com/jirenius/go-res/store"
	"github.com/jirenius/go-res/store/badgerstore"
	"github.com/jirenius/go-res/store/mockstore"
	"github.com/jirenius/keylock"
	"github.com/jirenius/taskqueue"

	"verif/sim/model"
	"verif/sim/sched"
)

// CohMut is one store mutation.
type CohMut struct {
	Kind string          `json:"k"` // create | update | delete | init (badger backend: Store.Init with a seed for every id)
	ID   string          `json:"id"`
	Val  json.RawMessage `json:"v,omitempty"`
	Y    int             `json:"y,omitempty"`    // yields inside the transaction
	Cont bool            `json:"cont,omitempty"` // same write transaction as the previous mutation (same id)
	// CommitErr: the commit of this mutation is refused (disk error; badger
	// backend only)
	CommitErr bool `json:"commit_err,omitempty"`
}

// CohCase is a case of the store-handler coherence scenario.
type CohCase struct {
	Backend  string       `json:"backend"`
	Coll     bool         `json:"coll"`
	Trans    string       `json:"trans"` // none | id | custom
	Default  bool         `json:"default"`
	Workers  int          `json:"workers"`
	Rounds   [][][]CohMut `json:"rounds"` // round -> mutator -> mutations
	RaceGets int          `json:"race_gets"`
	Optional []string     `json:"optional"`
	// Nest: where the handler is registered: 0 on the service, 1 on a Mux
	// mounted on it, 2 and 3 on a Mux mounted on a Mux mounted on it (2: the
	// inner one is mounted first, 3: the outer one)
	Nest int `json:"nest,omitempty"`
}

// StoreCohScenario: clients of store-backed resources stay coherent with a
// fresh get (C10).
type StoreCohScenario struct{}

func (StoreCohScenario) Name() string { return "storecoh" }

var cohIDs = []string{"a", "b", "c"}

func genModelValue(r *rand.Rand) json.RawMessage {
	m := map[string]interface{}{}
	pool := []interface{}{1, 2, "x", "y", true, nil, res.Ref("test.item.b"), res.SoftRef("test.other"), res.NewDataValue([]int{1, 2}), res.NewDataValue(map[string]int{"k": 1}), 3.5, "q\"é"}
	for _, k := range []string{"a", "b", "c"} {
		if chance(r, 60) {
			m[k] = pick(r, pool...)
		}
	}
	b, _ := json.Marshal(m)
	return b
}

func genCollValue(r *rand.Rand) json.RawMessage {
	n := r.IntN(5)
	l := make([]string, n)
	for i := range l {
		l[i] = pick(r, "a", "b", "c")
	}
	b, _ := json.Marshal(l)
	return b
}

// genBigCollValue: a short head and tail over the small alphabet around a
// long middle section of one of three families of distinct values (seeded
// change C10t: a diff that gives up above a million matrix cells).
func genBigCollValue(r *rand.Rand) json.RawMessage {
	var l []string
	for i, n := 0, r.IntN(4); i < n; i++ {
		l = append(l, pick(r, "a", "a", "a", "b"))
	}
	fam, n := pick(r, "p", "q", "r"), pick(r, 300, 1030, 1100, 1100)
	for i := 0; i < n; i++ {
		l = append(l, fam+strconv.Itoa(i))
	}
	for i, n := 0, r.IntN(3); i < n; i++ {
		l = append(l, pick(r, "a", "b"))
	}
	b, _ := json.Marshal(l)
	return b
}

func (StoreCohScenario) GenCase(r *rand.Rand, prop string) interface{} {
	c := &CohCase{}
	c.Backend = pick(r, "mock", "badger")
	c.Coll = chance(r, 50)
	// one collection case in twenty-five has collections of hundreds of values
	big := c.Coll && r.IntN(25) == 0
	c.Trans = pick(r, "none", "id", "custom", "hide")
	c.Default = chance(r, 40)
	c.Workers = pick(r, 1, 2, 4)
	c.Nest = pick(r, 0, 0, 0, 1, 2, 3)
	for _, p := range append(append([]string{}, storePoints...), "conn.Publish", "event", "rawEvent", "worker.beforeCb", "handleRequest", "runWith.beforeLock", "auto.lock") {
		if chance(r, 60) {
			c.Optional = append(c.Optional, p)
		}
	}
	c.RaceGets = r.IntN(4)
	nr := 1 + r.IntN(3)
	if big {
		nr, c.RaceGets = 1, r.IntN(2)
	}
	for ri := 0; ri < nr; ri++ {
		var round [][]CohMut
		nm := 1 + r.IntN(3)
		if big {
			nm = 1
		}
		for mi := 0; mi < nm; mi++ {
			var muts []CohMut
			nmut := 1 + r.IntN(4)
			if big {
				nmut = 2 + r.IntN(3)
			}
			for i, n := 0, nmut; i < n; i++ {
				m := CohMut{Kind: pick(r, "create", "update", "update", "update", "delete"), ID: pick(r, cohIDs...), Y: r.IntN(2)}
				if chance(r, 50) {
					m.ID = "a"
				}
				if len(muts) > 0 && muts[len(muts)-1].Kind != "init" && chance(r, 25) {
					// several mutations inside one write transaction
					m.ID, m.Cont = muts[len(muts)-1].ID, true
				}
				if c.Backend == "badger" && chance(r, 6) {
					// the store is (or is not, any more) initialised with
					// seeds under all ids; the value is the seed of each
					m.Kind, m.Cont = "init", false
				}
				if c.Backend == "badger" && chance(r, 8) {
					m.CommitErr = true
				}
				if m.Kind != "delete" {
					if big {
						// one id, created and then updated from one long
						// collection to another
						m.ID, m.Kind = "a", "update"
						if i == 0 {
							m.Kind = "create"
						}
						m.Val = genBigCollValue(r)
					} else if c.Coll {
						m.Val = genCollValue(r)
					} else {
						m.Val = genModelValue(r)
					}
				}
				muts = append(muts, m)
			}
			round = append(round, muts)
		}
		c.Rounds = append(c.Rounds, round)
	}
	return c
}

func (StoreCohScenario) DecodeCase(raw json.RawMessage) (interface{}, error) {
	c := &CohCase{}
	err := json.Unmarshal(raw, c)
	return c, err
}

func (StoreCohScenario) Shrinks(ci interface{}) []interface{} {
	c := ci.(*CohCase)
	clone := func() *CohCase {
		b, _ := json.Marshal(c)
		n := &CohCase{}
		json.Unmarshal(b, n)
		return n
	}
	var out []interface{}
	for ri := range c.Rounds {
		if len(c.Rounds) > 1 {
			n := clone()
			n.Rounds = append(n.Rounds[:ri:ri], n.Rounds[ri+1:]...)
			out = append(out, n)
		}
		for mi := range c.Rounds[ri] {
			if len(c.Rounds[ri]) > 1 {
				n := clone()
				n.Rounds[ri] = append(n.Rounds[ri][:mi:mi], n.Rounds[ri][mi+1:]...)
				out = append(out, n)
			}
			for i := range c.Rounds[ri][mi] {
				if len(c.Rounds[ri][mi]) > 1 {
					n := clone()
					l := n.Rounds[ri][mi]
					n.Rounds[ri][mi] = append(l[:i:i], l[i+1:]...)
					out = append(out, n)
				}
			}
		}
	}
	if c.RaceGets > 0 {
		n := clone()
		n.RaceGets = 0
		out = append(out, n)
	}
	return out
}

// cohRun holds the state of one run.
type cohRun struct {
	c    *CohCase
	sim  *sched.Sim
	h    *Hist
	m    *miniSvc
	st   store.Store
	bs   *badgerstore.Store
	mock *mockstore.Store
	// injected commit errors, by task name
	failCommit map[string]bool
	commitErrs int
}

func (cr *cohRun) storeID(id string) string {
	if cr.c.Trans == "none" {
		return cr.rid(id)
	}
	return id
}

func (cr *cohRun) rid(id string) string {
	switch cr.c.Nest {
	case 1:
		return "test.api.item." + id
	case 2, 3:
		return "test.api.v1.item." + id
	}
	return "test.item." + id
}

// customTransform is the handler's custom transform: it drops property "c"
// of models (so changes to it do not alter the served representation) and
// turns collection members into references.
func customTransform(coll bool) func(id string, v interface{}) (interface{}, error) {
	return func(id string, v interface{}) (interface{}, error) {
		if coll {
			l, _ := v.([]string)
			out := make([]interface{}, len(l))
			for i, x := range l {
				out[i] = res.Ref("test.item." + x)
			}
			return out, nil
		}
		m, _ := v.(map[string]interface{})
		out := map[string]interface{}{"id": id}
		for k, x := range m {
			if k != "c" {
				out[k] = x
			}
		}
		return out, nil
	}
}

// hiddenValue tells which stored values the "hide" transform refuses to
// serve (drafts): models whose property "b" is a string, a boolean or null,
// collections that start with "c".
func hiddenValue(v interface{}) bool {
	switch x := v.(type) {
	case []string:
		return len(x) > 0 && x[0] == "c"
	case map[string]interface{}:
		b, ok := x["b"]
		if !ok {
			return false
		}
		switch b.(type) {
		case string, bool, nil:
			return true
		}
	}
	return false
}

func (cr *cohRun) decodeVal(raw json.RawMessage) interface{} {
	if cr.c.Coll {
		var l []string
		json.Unmarshal(raw, &l)
		if l == nil {
			l = []string{}
		}
		return l
	}
	var m map[string]interface{}
	json.Unmarshal(raw, &m)
	return m
}

func (StoreCohScenario) Execute(sim *sched.Sim, ci interface{}, prop string, race bool) *Outcome {
	c := ci.(*CohCase)
	h := NewHist(sim)
	cr := &cohRun{c: c, sim: sim, h: h, failCommit: map[string]bool{}}
	sim.Optional = map[string]bool{}
	for _, p := range c.Optional {
		sim.Optional[p] = true
	}
	sim.RoleOf = roleOf
	useCanon(sim)
	var db *badger.DB
	switch c.Backend {
	case "mock":
		cr.mock = mockstore.NewStore()
		cr.st = cr.mock
	default:
		dir := tempDBDir()
		defer os.RemoveAll(dir)
		db = openBadger(dir)
		defer db.Close()
		bs := badgerstore.NewStore(db)
		if c.Coll {
			bs.SetType([]string{})
		}
		cr.st, cr.bs = bs, bs
	}
	// hook: with mockstore, never park while the store lock is held (the
	// running task is the holder): transactions are atomic steps
	var probeMu sync.Mutex
	yield := func(point, arg string) {
		if cr.mock != nil {
			// goroutines woken or created by the running task may reach
			// their first yield point at the same moment: serialise the
			// probes so that they do not see each other's TryLock
			probeMu.Lock()
			free := cr.mock.TryLock()
			if free {
				cr.mock.Unlock()
			}
			probeMu.Unlock()
			if !free {
				return
			}
		}
		sim.Yield(point, arg)
	}
	res.VerifHook = yield
	badgerstore.VerifHook = yield
	badger.VerifHook = yield
	keylock.Hook = yield
	taskqueue.Hook = yield
	badger.VerifCommitFault = func() error {
		if t := sim.Current(); t != nil && cr.failCommit[t.Name] {
			cr.failCommit[t.Name] = false
			cr.commitErrs++
			return errors.New("simulated disk error at commit")
		}
		return nil
	}
	defer func() {
		badger.VerifCommitFault = nil
		res.VerifHook = nil
		badgerstore.VerifHook = nil
		badger.VerifHook = nil
		keylock.Hook = nil
		taskqueue.Hook = nil
	}()

	m := newMiniSvc(sim, h, "test", c.Workers)
	m.conn.YieldFn = yield
	cr.m = m
	sh := store.Handler{Store: cr.st}
	switch c.Trans {
	case "id":
		sh.Transformer = store.IDTransformer("id", nil)
	case "custom":
		sh.Transformer = store.IDTransformer("id", customTransform(c.Coll))
	case "hide":
		// some stored values are not served at all
		ct := customTransform(c.Coll)
		sh.Transformer = store.IDTransformer("id", func(id string, v interface{}) (interface{}, error) {
			if hiddenValue(v) {
				sim.Probe("coh.hidden")
				return nil, res.ErrNotFound
			}
			return ct(id, v)
		})
	}
	if c.Default {
		if c.Coll {
			sh.Default = []interface{}{"d"}
		} else {
			sh.Default = map[string]interface{}{"a": "def"}
		}
	}
	typ := res.Model
	if c.Coll {
		typ = res.Collection
	}
	switch c.Nest {
	case 0:
		m.svc.Handle("item.$id", typ, sh)
	case 1:
		mx := res.NewMux("")
		mx.Handle("item.$id", typ, sh)
		m.svc.Mount("api", mx)
	case 2:
		inner, outer := res.NewMux(""), res.NewMux("")
		inner.Handle("item.$id", typ, sh)
		outer.Mount("v1", inner)
		m.svc.Mount("api", outer)
	case 3:
		inner, outer := res.NewMux(""), res.NewMux("")
		m.svc.Mount("api", outer)
		outer.Mount("v1", inner)
		inner.Handle("item.$id", typ, sh)
	}
	m.start()

	evals := 0
	fetch := func() map[string]model.CacheEntry {
		inboxes := map[string]string{}
		for _, id := range cohIDs {
			inboxes[id] = m.request("get."+cr.rid(id), nil)
		}
		m.quiesce()
		out := map[string]model.CacheEntry{}
		for _, id := range cohIDs {
			rs := m.responses(inboxes[id])
			if len(rs) != 1 {
				h.Violate("C10", "get-response-count", "", fmt.Sprintf("get %s: %d responses", cr.rid(id), len(rs)))
				continue
			}
			ce, err := model.ParseGet(rs[0])
			if err != nil {
				h.Violate("C10", "get-response", "", err.Error())
				continue
			}
			out[id] = ce
		}
		return out
	}
	baseline := fetch()
	for ri, round := range c.Rounds {
		startSeq := sim.Seq()
		var tasks []*sched.Task
		for mi, muts := range round {
			muts := muts
			name := fmt.Sprintf("mut%d.%d", ri+1, mi+1)
			tasks = append(tasks, sim.Go(name, func() { cr.mutate(muts) }))
		}
		type raceGet struct{ id, inbox string }
		var raceGets []raceGet
		for g := 0; g < c.RaceGets; g++ {
			id := cohIDs[g%len(cohIDs)]
			raceGets = append(raceGets, raceGet{id, m.request("get."+cr.rid(id), nil)})
		}
		m.quiesce()
		for _, t := range tasks {
			if !t.IsDone() {
				h.Violate("C10", "mutator-stuck", "", "mutator "+t.Name+" did not finish: "+describeParked(sim))
			}
		}
		endSeq := sim.Seq()
		fresh := fetch()
		// apply, in connection order, every event published for each resource
		for _, id := range cohIDs {
			base, ok1 := baseline[id]
			fr, ok2 := fresh[id]
			if !ok1 || !ok2 {
				continue
			}
			evals++
			cache := base.Clone()
			prefix := "event." + cr.rid(id) + "."
			var applied []string
			bad := ""
			for _, p := range m.conn.PubsSnapshot() {
				if p.Seq <= startSeq || p.Seq >= endSeq || !strings.HasPrefix(p.Subject, prefix) {
					continue
				}
				name := p.Subject[len(prefix):]
				applied = append(applied, name+" "+string(p.Data))
				if msg := cache.Apply(name, p.Data); msg != "" && bad == "" {
					bad = msg
				}
			}
			desc := fmt.Sprintf("config={backend:%s coll:%v trans:%s default:%v} round %d resource %s: fetched %s, events %v, fresh get %s", c.Backend, c.Coll, c.Trans, c.Default, ri+1, cr.rid(id), base.String(), applied, fr.String())
			switch {
			case bad != "":
				h.Violate("C10", "inapplicable-event", "", bad+"; "+desc)
			case cache.Present != fr.Present:
				h.Violate("C10", "missing-state", "", fmt.Sprintf("client holds present=%v but fresh get says present=%v; %s", cache.Present, fr.Present, desc))
			case cache.Present && cache.Synced && !cache.SameData(fr):
				h.Violate("C10", "stale-client", "", fmt.Sprintf("client holds %s; %s", cache.String(), desc))
			}
		}
		// a client whose get raced the mutations: it holds what the response
		// gave it, applies every event published after that response on the
		// connection, and must equal the fresh get as well
		for _, rg := range raceGets {
			fr, ok := fresh[rg.id]
			if !ok {
				continue
			}
			var respSeq uint64
			var respData []byte
			for _, p := range m.conn.PubsSnapshot() {
				if p.Subject == rg.inbox {
					respSeq, respData = p.Seq, p.Data
				}
			}
			if respSeq == 0 {
				continue
			}
			cache, err := model.ParseGet(respData)
			if err != nil {
				continue
			}
			evals++
			prefix := "event." + cr.rid(rg.id) + "."
			var applied []string
			bad := ""
			for _, p := range m.conn.PubsSnapshot() {
				if p.Seq <= respSeq || p.Seq >= endSeq || !strings.HasPrefix(p.Subject, prefix) {
					continue
				}
				name := p.Subject[len(prefix):]
				applied = append(applied, name+" "+string(p.Data))
				if msg := cache.Apply(name, p.Data); msg != "" && bad == "" {
					bad = msg
				}
			}
			desc := fmt.Sprintf("config={backend:%s coll:%v trans:%s default:%v} round %d resource %s: a get racing the mutations returned %s, events published after that response %v, fresh get %s", c.Backend, c.Coll, c.Trans, c.Default, ri+1, cr.rid(rg.id), respData, applied, fr.String())
			switch {
			case bad != "":
				h.Violate("C10", "inapplicable-event", "racing-get", bad+"; "+desc)
			case cache.Present != fr.Present:
				h.Violate("C10", "missing-state", "racing-get", desc)
			case cache.Present && cache.Synced && !cache.SameData(fr):
				h.Violate("C10", "stale-client", "racing-get", fmt.Sprintf("client holds %s; %s", cache.String(), desc))
			}
		}
		baseline = fresh
	}
	if !m.shutdown() {
		h.Violate("C03", "shutdown-hang", "storecoh", "service did not stop")
	}
	for _, p := range sim.Panics {
		h.Violate("C10", "panic", panicSignature(p), p)
	}
	out := &Outcome{Faults: map[string]int{"commit-error": cr.commitErrs}, Evals: evals + h.Evals}
	nm := 0
	for _, r := range c.Rounds {
		for _, ms := range r {
			nm += len(ms)
		}
	}
	out.Sample = map[string]interface{}{"backend": c.Backend, "collection": c.Coll, "transformer": c.Trans, "default": c.Default, "rounds": len(c.Rounds), "mutations": nm}
	for _, v := range h.Viol {
		if prop == "" || v.Property == prop {
			out.Violations = append(out.Violations, v)
		}
	}
	return out
}

func describeParked(sim *sched.Sim) string {
	var parts []string
	for _, t := range sim.Parked() {
		parts = append(parts, t.Name+"@"+t.Point+"("+t.Arg+")")
	}
	sort.Strings(parts)
	return strings.Join(parts, ", ")
}

func (cr *cohRun) mutate(muts []CohMut) {
	for i := 0; i < len(muts); {
		cr.sim.Yield("mut.op", strconv.Itoa(i))
		if muts[i].Kind == "init" {
			if cr.bs != nil {
				cr.sim.Probe("coh.init")
				val := cr.decodeVal(muts[i].Val)
				name := ""
				if t := cr.sim.Current(); t != nil {
					name = t.Name
				}
				// (a refused commit: Init has then stored nothing, and must
				// not have announced anything)
				cr.failCommit[name] = muts[i].CommitErr
				defer func() { cr.failCommit[name] = false }()
				cr.bs.Init(func(add func(id string, v interface{})) error {
					for _, id := range cohIDs {
						add(cr.storeID(id), val)
					}
					return nil
				})
			}
			i++
			continue
		}
		wt := cr.st.Write(cr.storeID(muts[i].ID))
		for first := true; i < len(muts) && (first || (muts[i].Cont && muts[i].ID == muts[i-1].ID)); i++ {
			mu := muts[i]
			first = false
			// mockstore regime: the whole transaction is one atomic step
			for y := 0; y < mu.Y; y++ {
				if cr.mock == nil {
					cr.sim.Yield("mut.intxn", mu.ID)
				}
			}
			name := ""
			if t := cr.sim.Current(); t != nil {
				name = t.Name
			}
			if mu.CommitErr && cr.mock == nil {
				cr.failCommit[name] = true
			}
			switch mu.Kind {
			case "create":
				wt.Create(cr.decodeVal(mu.Val))
			case "update":
				wt.Update(cr.decodeVal(mu.Val))
			case "delete":
				wt.Delete()
			}
			cr.failCommit[name] = false
		}
		wt.Close()
	}
}

func init() { register(StoreCohScenario{}) }
