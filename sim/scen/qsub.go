package scen

import (
	"encoding/json"
	"fmt"
	"github.com/dgraph-io/badger"
	"math/rand/v2"
	"net/url"
	"os"
	"strconv"
	"strings"
	"time"

	res "github.com/jirenius/go-res"
	"github.com/jirenius/go-res/store"
	"github.com/jirenius/go-res/store/badgerstore"
	"github.com/jirenius/keylock"
	"github.com/jirenius/taskqueue"

	"verif/sim/model"
	"verif/sim/sched"
	"verif/sim/simconn"
)

// QSubCase is a case of the query-subscriber scenario (C14 handler layer).
type QSubCase struct {
	Workers  int        `json:"workers"`
	QueryMs  int        `json:"query_ms"`
	Mutators [][]IdxMut `json:"mutators"`
	Optional []string   `json:"optional"`
	Affected bool       `json:"affected"`         // AffectedResources callback on the parameterised resource
	TQCap    int        `json:"tq_cap,omitempty"` // capacity of the index task queue (0 = the library's 256)
	// Bogus: the AffectedResources callback ends its list with a resource
	// that no handler serves (the handler then gives up on that one; the
	// resources before it must have been dealt with)
	Bogus bool `json:"bogus,omitempty"`
}

// QSubScenario: clients holding query results through store.QueryHandler are
// told whenever their result may have changed (C14, handler layer).
type QSubScenario struct{}

func (QSubScenario) Name() string { return "qsub" }

func (QSubScenario) GenCase(r *rand.Rand, prop string) interface{} {
	c := &QSubCase{Workers: pick(r, 1, 2, 4), QueryMs: pick(r, 50, 1000), Affected: true}
	for _, p := range append(append([]string{}, storePoints...), "tq.do", "tq.next", "updateIndex.afterCommit", "conn.Publish", "event", "rawEvent", "worker.beforeCb", "queryListener.recv", "runWith.beforeLock", "handleRequest", "auto.lock") {
		if chance(r, 60) {
			c.Optional = append(c.Optional, p)
		}
	}
	v := 0
	for mi, nm := 0, 1+r.IntN(2); mi < nm; mi++ {
		var muts []IdxMut
		for i, n := 0, 1+r.IntN(6); i < n; i++ {
			v++
			muts = append(muts, IdxMut{Kind: pick(r, "create", "create", "update", "update", "delete"), ID: pick(r, "1", "2", "3"), K: pick(r, "a", "ab", "b", "ba", ""), V: v})
		}
		c.Mutators = append(c.Mutators, muts)
	}
	c.TQCap = pick(r, 0, 0, 1, 2)
	c.Bogus = chance(r, 25)
	return c
}

func (QSubScenario) DecodeCase(raw json.RawMessage) (interface{}, error) {
	c := &QSubCase{}
	err := json.Unmarshal(raw, c)
	return c, err
}

func (QSubScenario) Shrinks(ci interface{}) []interface{} {
	c := ci.(*QSubCase)
	var out []interface{}
	for mi := range c.Mutators {
		for i := range c.Mutators[mi] {
			b, _ := json.Marshal(c)
			n := &QSubCase{}
			json.Unmarshal(b, n)
			l := n.Mutators[mi]
			n.Mutators[mi] = append(l[:i:i], l[i+1:]...)
			out = append(out, n)
		}
	}
	return out
}

type heldResult struct {
	rid      string // resource id, with query for the query resource
	subject  string // get subject
	payload  string
	value    string // JSON of the collection
	fetchSeq uint64 // sequence number at which the current value was requested
	notified bool
	inbox    string
	pending  bool
}

func (QSubScenario) Execute(sim *sched.Sim, ci interface{}, prop string, race bool) *Outcome {
	c := ci.(*QSubCase)
	h := NewHist(sim)
	sim.Optional = map[string]bool{}
	for _, p := range c.Optional {
		sim.Optional[p] = true
	}
	sim.RoleOf = roleOf
	useCanon(sim)
	dir := tempDBDir()
	defer os.RemoveAll(dir)
	db := openBadger(dir)
	defer db.Close()
	res.VerifHook = sim.Yield
	badgerstore.VerifHook = sim.Yield
	badger.VerifHook = sim.Yield
	keylock.Hook = sim.Yield
	taskqueue.Hook = sim.Yield
	defer func() {
		res.VerifHook = nil
		badgerstore.VerifHook = nil
		badger.VerifHook = nil
		keylock.Hook = nil
		taskqueue.Hook = nil
	}()

	st := badgerstore.NewStore(db).SetType(idxRec{}).SetPrefix("it")
	badgerstore.VerifTaskCapacity = c.TQCap
	qs := badgerstore.NewQueryStore(st, func(qs *badgerstore.QueryStore, q url.Values) (*badgerstore.IndexQuery, error) {
		return &badgerstore.IndexQuery{Index: qs.Index("k"), KeyPrefix: []byte(q.Get("p")), Limit: -1}, nil
	})
	badgerstore.VerifTaskCapacity = 0
	qs.AddIndex(badgerstore.Index{Name: "k", Key: func(v interface{}) []byte {
		r := v.(idxRec)
		return idxKeyOf("k", &r)
	}})
	m := newMiniSvc(sim, h, "test", c.Workers)
	m.svc.SetQueryEventDuration(time.Duration(c.QueryMs) * time.Millisecond)
	trans := store.IDToRIDCollectionTransformer(func(id string) string { return "test.item." + id })
	m.svc.Handle("item.$id", res.Model, store.Handler{Store: st, Transformer: store.IDTransformer("id", nil)})
	// ordinary resource over the whole index
	m.svc.Handle("items", res.Collection, store.QueryHandler{QueryStore: qs, Transformer: trans})
	// ordinary resources parameterised by key prefix
	// (a resource that no handler serves is only put into the list of the
	// ordinary resource, which skips it; for a query resource the handler
	// treats it as a programming error and panics)
	affected := func(p res.Pattern, qc store.QueryChange, bogus bool) []string {
		seen := map[string]bool{}
		var out []string
		for _, v := range []interface{}{qc.Before(), qc.After()} {
			if v == nil {
				continue
			}
			k := v.(idxRec).K
			for i := 1; i <= len(k); i++ {
				pre := k[:i]
				if !seen[pre] {
					seen[pre] = true
					out = append(out, string(p.ReplaceTag("p", pre)))
				}
			}
		}
		if bogus {
			out = append(out, "test.unserved."+qc.ID())
		}
		return out
	}
	m.svc.Handle("itemsby.$p", res.Collection, store.QueryHandler{QueryStore: qs, Transformer: trans,
		RequestHandler: func(rname string, pp map[string]string) (url.Values, error) {
			return url.Values{"p": {pp["p"]}}, nil
		},
		AffectedResources: func(p res.Pattern, qc store.QueryChange) []string { return affected(p, qc, c.Bogus) }})
	// query resources parameterised by key prefix: the query extends the
	// prefix (the normalized query does not contain the path parameter)
	m.svc.Handle("under.$p", res.Collection, store.QueryHandler{QueryStore: qs, Transformer: trans,
		QueryRequestHandler: func(rname string, pp map[string]string, q url.Values) (url.Values, string, error) {
			x := q.Get("x")
			return url.Values{"p": {pp["p"] + x}}, "x=" + x, nil
		},
		AffectedResources: func(p res.Pattern, qc store.QueryChange) []string { return affected(p, qc, false) }})
	// query resource
	m.svc.Handle("search", res.Collection, store.QueryHandler{QueryStore: qs, Transformer: trans,
		QueryRequestHandler: func(rname string, pp map[string]string, q url.Values) (url.Values, string, error) {
			p := q.Get("p")
			return url.Values{"p": {p}}, "p=" + p, nil
		}})
	m.start()

	held := []*heldResult{
		{rid: "test.items", subject: "get.test.items"},
		{rid: "test.itemsby.a", subject: "get.test.itemsby.a"},
		{rid: "test.itemsby.b", subject: "get.test.itemsby.b"},
		{rid: "test.itemsby.ab", subject: "get.test.itemsby.ab"},
		{rid: "test.search?p=a", subject: "get.test.search", payload: `{"query":"p=a"}`},
		{rid: "test.search?p=", subject: "get.test.search", payload: `{"query":"p="}`},
		{rid: "test.search?p=b", subject: "get.test.search", payload: `{"query":"p=b"}`},
		{rid: "test.under.a?x=", subject: "get.test.under.a", payload: `{"query":"x="}`},
		{rid: "test.under.b?x=", subject: "get.test.under.b", payload: `{"query":"x="}`},
		{rid: "test.under.a?x=b", subject: "get.test.under.a", payload: `{"query":"x=b"}`},
		{rid: "test.under.b?x=a", subject: "get.test.under.b", payload: `{"query":"x=a"}`},
	}
	parseColl := func(data []byte) (string, bool) {
		ce, err := model.ParseGet(data)
		if err != nil || !ce.Present || !ce.IsColl {
			return string(data), false
		}
		b, _ := json.Marshal(ce.Coll)
		return string(b), true
	}
	fetch := func(hr *heldResult) {
		hr.fetchSeq = sim.Seq()
		hr.notified = false
		hr.inbox = m.request(hr.subject, []byte(hr.payload))
		hr.pending = true
	}
	collect := func() {
		for _, hr := range held {
			if !hr.pending {
				continue
			}
			rs := m.responses(hr.inbox)
			if len(rs) == 0 {
				continue
			}
			hr.pending = false
			if v, ok := parseColl(rs[0]); ok {
				hr.value = v
			} else {
				h.Violate("C14", "get-failed", "", fmt.Sprintf("get %s: %s", hr.rid, rs[0]))
			}
		}
	}
	for _, hr := range held {
		fetch(hr)
	}
	m.quiesce()
	collect()

	// the client: reacts to system.reset by re-getting, and to a query event
	// by sending a query request on the announced subject
	seenPubs := 0
	type qreq struct {
		hr    *heldResult
		inbox string
	}
	var qreqs []qreq
	notifications := 0
	react := func() {
		pubs := m.conn.PubsSnapshot()
		for _, p := range pubs[seenPubs:] {
			switch {
			case p.Subject == "system.reset":
				var ev struct {
					Resources []string `json:"resources"`
				}
				json.Unmarshal(p.Data, &ev)
				for _, hr := range held {
					rname := hr.rid
					if i := strings.IndexByte(rname, '?'); i >= 0 {
						rname = rname[:i]
					}
					for _, pat := range ev.Resources {
						if simconn.SubjectMatches(pat, rname) {
							notifications++
							fetch(hr)
						}
					}
				}
			case strings.HasPrefix(p.Subject, "event.") && strings.HasSuffix(p.Subject, ".query"):
				rname := strings.TrimSuffix(strings.TrimPrefix(p.Subject, "event."), ".query")
				var ev struct {
					Subject string `json:"subject"`
				}
				json.Unmarshal(p.Data, &ev)
				for _, hr := range held {
					i := strings.IndexByte(hr.rid, '?')
					if i < 0 || hr.rid[:i] != rname {
						continue
					}
					notifications++
					m.nextID++
					inbox := "_INBOX.peer.q" + strconv.Itoa(m.nextID)
					m.mon.Inboxes[inbox] = simconn.InboxInfo{Query: true}
					pl, _ := json.Marshal(map[string]string{"query": hr.rid[i+1:]})
					if ds := m.conn.Inject(ev.Subject, inbox, pl); len(ds) == 0 {
						h.Violate("C14", "query-subject-not-subscribed", "", "the subject announced by the query event has no subscription")
					}
					qreqs = append(qreqs, qreq{hr, inbox})
				}
			}
		}
		seenPubs = len(pubs)
		// answers to query requests
		rest := qreqs[:0]
		for _, q := range qreqs {
			rs := m.responses(q.inbox)
			if len(rs) == 0 {
				rest = append(rest, q)
				continue
			}
			var r struct {
				Result *struct {
					Events     []json.RawMessage `json:"events"`
					Collection *[]interface{}    `json:"collection"`
				} `json:"result"`
			}
			if json.Unmarshal(rs[0], &r) != nil || r.Result == nil {
				h.Violate("C14", "query-response", "", fmt.Sprintf("query request for %s answered %s", q.hr.rid, rs[0]))
				continue
			}
			if r.Result.Collection != nil {
				b, _ := json.Marshal(*r.Result.Collection)
				q.hr.value = string(b)
			} else if len(r.Result.Events) > 0 {
				h.Violate("C14", "query-response", "events", "events in a query response are not expected from this query store")
			}
		}
		qreqs = rest
		collect()
	}

	var tasks []*sched.Task
	for mi := range c.Mutators {
		muts := c.Mutators[mi]
		tasks = append(tasks, sim.Go("mut"+strconv.Itoa(mi+1), func() {
			for i, mu := range muts {
				sim.Yield("mut.op", strconv.Itoa(i))
				wt := st.Write(mu.ID)
				switch mu.Kind {
				case "create":
					wt.Create(idxRec{K: mu.K, N: "x", V: mu.V})
				case "update":
					wt.Update(idxRec{K: mu.K, N: "x", V: mu.V})
				case "delete":
					wt.Delete()
				}
				wt.Close()
			}
		}))
	}
	for i := 0; ; i++ {
		stepBound(i, 1000000, "qsub")
		sim.Wait()
		react()
		if !sim.Decide(nil) {
			// let pending reactions produce more work
			react()
			if m.conn.PendingInbound() == 0 {
				break
			}
		}
	}
	for _, t := range tasks {
		if !t.IsDone() {
			h.Violate("C14", "mutator-stuck", "", describeParked(sim))
		}
	}
	// final: every held result equals a fresh get
	evals := 0
	for _, hr := range held {
		evals++
		inbox := m.request(hr.subject, []byte(hr.payload))
		m.quiesce()
		rs := m.responses(inbox)
		if len(rs) != 1 {
			h.Violate("C14", "get-failed", "", hr.rid)
			continue
		}
		fresh, _ := parseColl(rs[0])
		if fresh != hr.value {
			h.Violate("C14", "stale-query-result", "", fmt.Sprintf("client holds %s = %s (fetched at seq %d, %d notifications received in the run), a fresh get returns %s; mutations: %s", hr.rid, hr.value, hr.fetchSeq, notifications, fresh, mutStr(c)))
		}
	}
	// let the query events expire, then stop
	time.Sleep(time.Duration(c.QueryMs)*time.Millisecond + time.Second)
	m.quiesce()
	if !m.shutdown() {
		h.Violate("C03", "shutdown-hang", "qsub", "service did not stop")
	}
	for _, p := range sim.Panics {
		h.Violate("C14", "panic", panicSignature(p), p)
	}
	out := &Outcome{Faults: map[string]int{}, Evals: evals + h.Evals}
	nm := 0
	for _, mm := range c.Mutators {
		nm += len(mm)
	}
	out.Sample = map[string]interface{}{"mutators": len(c.Mutators), "mutations": nm, "held_results": len(held), "notifications": notifications}
	for _, v := range h.Viol {
		if prop == "" || v.Property == prop {
			out.Violations = append(out.Violations, v)
		}
	}
	return out
}

func mutStr(c *QSubCase) string {
	b, _ := json.Marshal(c.Mutators)
	return string(b)
}

func init() { register(QSubScenario{}) }
