package scen

import (
	"encoding/json"
	"fmt"
	"math/rand/v2"
	"sort"
	"strconv"
	"strings"

	"verif/sim/model"
	"verif/sim/sched"
	"verif/sim/simconn"
)

// EventsScenario: apply -> publish -> listeners on the calling goroutine;
// program order on the connection (C08).
type EventsScenario struct{}

func (EventsScenario) Name() string { return "events" }

func genEventPatterns(r *rand.Rand) []PatSpec {
	pats := genPatterns(r, true)
	for i := range pats {
		p := &pats[i]
		p.Apply = pick(r, "", "", "ok", "ok", "fail", "failnotfound", "failreserr", "nochange")
		p.Listen = r.IntN(4)
		p.Nest = p.Listen > 0 && chance(r, 35)
		if len(p.Calls) == 0 {
			p.Calls = []string{"set"}
		}
	}
	if chance(r, 40) {
		// the handler registered last also declares listeners for the
		// other patterns of its Mux: they are added after the listeners
		// those patterns have of their own
		last := &pats[len(pats)-1]
		for i := range pats[:len(pats)-1] {
			if strings.Join(pats[i].Mounts, "/") == strings.Join(last.Mounts, "/") {
				pats[i].Extra3 = true
				last.Cross = true
			}
		}
	}
	return pats
}

func genEventActions(r *rand.Rand, p *PatSpec, allowPanic bool, n int) []string {
	var sc []string
	for i := 0; i < n; i++ {
		var opts []string
		opts = append(opts, "ev:custom", "ev:other", "create", "delete", "reaccess", "y")
		switch p.Type {
		case 1:
			opts = append(opts, "chg:a", "chg:b", "chg:a", "chgempty")
		case 2:
			opts = append(opts, "add:0", "add:2", "rm:0", "rm:1")
		default:
			opts = append(opts, "chg:a", "add:0", "rm:0", "chgempty")
		}
		a := pick(r, opts...)
		if allowPanic && chance(r, 6) {
			a = pick(r, "ev:change", "ev:delete", "ev:query", "ev:patch", "ev:a.b", "ev:", "add:-1", "rm:-1", "chg:x", "add:0", "rm:0")
		}
		if !allowPanic && strings.HasPrefix(p.Apply, "fail") {
			switch {
			case strings.HasPrefix(a, "chg:"), strings.HasPrefix(a, "add"), strings.HasPrefix(a, "rm"), a == "create", a == "delete":
				a = "ev:safe"
			}
		}
		sc = append(sc, a)
	}
	return sc
}

func (EventsScenario) GenCase(r *rand.Rand, prop string) interface{} {
	c := &SvcCase{SvcName: "test", Gate: true, Epochs: 1, MidStop: []int{-1}}
	if chance(r, 20) {
		// Shutdown while callbacks are emitting events: what they emit is
		// still applied, published (attempted) and announced in order
		c.MidStop = []int{15 + r.IntN(120)}
	}
	c.Workers = pick(r, 1, 2, 3, 4, 32)
	c.InCh = pick(r, 8, 1024)
	c.QueryMs = 1000
	c.Pats = genEventPatterns(r)
	switch r.IntN(3) {
	case 0:
		c.Optional = []string{"*"}
	default:
		for _, p := range optionalPoints {
			if chance(r, 55) {
				c.Optional = append(c.Optional, p)
			}
		}
	}
	id := 0
	peer := ActorSpec{Name: "peer"}
	for i, n := 0, 3+r.IntN(8); i < n; i++ {
		p := &c.Pats[r.IntN(len(c.Pats))]
		id++
		op, ok := genRequest(r, c, p, id)
		if !ok {
			id--
			continue
		}
		var sc []string
		sc = append(sc, genEventActions(r, p, true, r.IntN(4))...)
		if chance(r, 30) {
			sc = append(sc, "t:100")
		}
		sc = append(sc, genEventActions(r, p, true, r.IntN(2))...)
		sc = append(sc, "r:default")
		sc = append(sc, genEventActions(r, p, true, r.IntN(2))...)
		op.Script = sc
		peer.Ops = append(peer.Ops, op)
	}
	c.Actors = append(c.Actors, peer)
	for pi, np := 0, r.IntN(3); pi < np; pi++ {
		a := ActorSpec{Name: "prod" + strconv.Itoa(pi+1)}
		for i, n := 0, 1+r.IntN(5); i < n; i++ {
			p := &c.Pats[r.IntN(len(c.Pats))]
			id++
			rid := instantiate(r, c.FullPattern(p), true)
			// the name may resolve to a more specific pattern than the one it
			// was built from: script it for the pattern that will serve it
			if mp, _, _ := model.Match(patsOf(c), rid); mp != nil {
				p = &c.Pats[mp.ID]
			}
			op := Op{ID: id, RID: rid}
			switch r.IntN(3) {
			case 0:
				op.Kind = "with"
			case 1:
				op.Kind = "withres"
			default:
				op.Kind = "emitscript"
			}
			op.Script = genEventActions(r, p, false, 1+r.IntN(4))
			a.Ops = append(a.Ops, op)
		}
		c.Actors = append(c.Actors, a)
	}
	if c.MidStop[0] < 0 && chance(r, 25) {
		// a query event, and query requests whose callbacks send events on
		// the query request
		qa := ActorSpec{Name: "qpeer"}
		p := &c.Pats[r.IntN(len(c.Pats))]
		id++
		if op, ok := genRequest(r, c, p, id); ok && strings.HasPrefix(op.Subject, "call.") {
			op.Script = []string{"qe:y", "r:default"}
			qa.Ops = append(qa.Ops, op)
			for i, n := 0, 1+r.IntN(3); i < n; i++ {
				id++
				q := Op{ID: id, Kind: "qreq", Args: []string{"0", "wait"}}
				q.Script = genEventActions(r, p, true, 1+r.IntN(3))
				for k, a := range q.Script {
					// (only events that are sent at once: change, add and
					// remove events of a query request go into its response)
					if strings.HasPrefix(a, "chg") || strings.HasPrefix(a, "add") || strings.HasPrefix(a, "rm") || a == "reaccess" {
						q.Script[k] = "ev:fromquery"
					}
				}
				qa.Ops = append(qa.Ops, q)
			}
			c.Actors = append(c.Actors, qa)
		} else {
			id--
		}
	}
	return c
}

func (EventsScenario) DecodeCase(raw json.RawMessage) (interface{}, error) {
	c := &SvcCase{}
	err := json.Unmarshal(raw, c)
	return c, err
}

func (EventsScenario) Shrinks(c interface{}) []interface{} { return shrinkSvcCase(c.(*SvcCase)) }

func (EventsScenario) Execute(sim *sched.Sim, ci interface{}, prop string, race bool) *Outcome {
	c := ci.(*SvcCase)
	run := RunSvc(sim, c, race, func(e *Engine) {
		e.OnQuiescent = func(ep int) { e.checkEvents() }
	})
	if !race {
		run.CheckOrder()
		run.CheckLifecycle()
		if c.MidStop[0] >= 0 {
			run.E.checkEvents()
		}
	}
	return run.Outcome(prop)
}

// listenerOrder returns the listener indexes in invocation order.
func listenerOrder(n int) []int {
	switch n {
	case 1:
		return []int{0}
	case 2:
		return []int{0, 1}
	case 3:
		return []int{2, 0, 1}
	}
	return nil
}

// expectEventLog predicts the global-log entries of one callback from its
// script. It returns the entries and whether the callback panicked.
func expectEventLog(p *PatSpec, pi int, script []string, id int, rname, inbox string, isRequest bool, handler string) []string {
	return expectEventLogOrder(p, pi, script, id, rname, inbox, isRequest, handler, nil)
}

// expectEventLogOrder: with the listeners of one event call invoked in the
// given order (nil: the order in which the library at the pinned commit calls
// them). C08 does not fix an order among the listeners of one event, so a
// sequence that differs from the prediction is compared with the prediction
// for every other order before it is reported.
func expectEventLogOrder(p *PatSpec, pi int, script []string, id int, rname, inbox string, isRequest bool, handler string, lorder []int) []string {
	var log []string
	replied := false
	sid := strconv.Itoa(id)
	pub := func(subj string) { log = append(log, "pub "+subj) }
	var listeners func(name, dig string)
	listeners = func(name, dig string) {
		order := listenerOrder(p.Listen)
		if p.Extra3 {
			order = append(append([]int{}, order...), 3)
		}
		if lorder != nil {
			order = lorder
		}
		for _, li := range order {
			log = append(log, fmt.Sprintf("listener %d %s %s %s", li, name, rname, dig))
			if li == 0 && p.Nest && name != "nested" {
				pub("event." + rname + ".nested")
				listeners("nested", digest(map[string]interface{}{"n": 0}))
			}
		}
	}
	apply := func(what string) bool {
		// returns false when the apply handler fails
		log = append(log, "apply "+what+" "+rname)
		return !strings.HasPrefix(p.Apply, "fail")
	}
	panicked := func() []string {
		if isRequest && !replied {
			pub(inbox)
		}
		return log
	}
	for _, a := range script {
		arg := ""
		if i := strings.IndexByte(a, ':'); i >= 0 {
			a, arg = a[:i], a[i+1:]
		}
		switch a {
		case "y", "val":
		case "t":
			pub(inbox)
		case "r":
			if replied {
				return panicked()
			}
			replied = true
			pub(inbox)
		case "ev":
			switch arg {
			case "change", "delete", "add", "remove", "patch", "reaccess", "unsubscribe", "query":
				return panicked()
			}
			if arg == "" || strings.ContainsAny(arg, ".*>? ") {
				return panicked()
			}
			pub("event." + rname + "." + arg)
			if pad := model.PadFor(id); pad != "" {
				listeners(arg, digest(map[string]interface{}{"n": id, "pad": pad}))
			} else {
				listeners(arg, digest(map[string]interface{}{"n": id}))
			}
		case "qe":
			pub("event." + rname + ".query")
		case "chgempty":
			if p.Type == 2 {
				return panicked()
			}
		case "chg":
			if p.Type == 2 {
				return panicked()
			}
			var old interface{}
			if p.Apply != "" {
				if !apply("change") {
					return panicked()
				}
				if p.Apply == "nochange" {
					continue
				}
				old = map[string]interface{}{"k" + arg: "old-k" + arg}
			}
			pub("event." + rname + ".change")
			var oldm map[string]interface{}
			if old != nil {
				oldm = old.(map[string]interface{})
			}
			listeners("change", digest(map[string]interface{}{"k" + arg: id}, oldm))
		case "add":
			idx, _ := strconv.Atoi(arg)
			if p.Type == 1 || idx < 0 {
				return panicked()
			}
			if p.Apply != "" && !apply("add") {
				return panicked()
			}
			pub("event." + rname + ".add")
			listeners("add", digest("v"+sid, idx))
		case "rm":
			idx, _ := strconv.Atoi(arg)
			if p.Type == 1 || idx < 0 {
				return panicked()
			}
			var v interface{}
			if p.Apply != "" {
				if !apply("remove") {
					return panicked()
				}
				v = "removed-" + strconv.Itoa(idx)
			}
			pub("event." + rname + ".remove")
			listeners("remove", digest(v, idx))
		case "create":
			if p.Apply != "" && !apply("create") {
				return panicked()
			}
			pub("event." + rname + ".create")
			listeners("create", digest(map[string]interface{}{"c": id}))
		case "delete":
			var v interface{}
			if p.Apply != "" {
				if !apply("delete") {
					return panicked()
				}
				v = "deleted-" + rname
			}
			pub("event." + rname + ".delete")
			listeners("delete", digest(v))
		case "reaccess":
			pub("event." + rname + ".reaccess")
		}
	}
	if isRequest && !replied {
		pub(inbox)
	}
	return log
}

// checkEvents is the C08 oracle: for each callback, the entries of the
// global log made on its task between enter and exit must equal the
// prediction: apply, publish, listeners, in order, on one task.
func (e *Engine) checkEvents() {
	type win struct {
		enter, exit uint64
		task        string
	}
	// a callback's window runs from its enter to the next enter on the same
	// task (a panicking handler's error response is published by go-res
	// after the handler function, and its deferred exit record, unwound)
	wins := map[int]win{}
	lastOnTask := map[string]int{}
	for _, rec := range e.H.Recs {
		if rec.Kind == "cb.enter" {
			if prev, ok := lastOnTask[rec.Task]; ok {
				w := wins[prev]
				w.exit = rec.Seq
				wins[prev] = w
			}
			wins[rec.Sub] = win{enter: rec.Seq, exit: ^uint64(0), task: rec.Task}
			lastOnTask[rec.Task] = rec.Sub
		}
	}
	type entry struct {
		seq  uint64
		text string
		task string
	}
	var all []entry
	for _, rec := range e.H.Recs {
		switch rec.Kind {
		case "apply":
			all = append(all, entry{rec.Seq, "apply " + rec.Extra, rec.Task})
		case "listener":
			all = append(all, entry{rec.Seq, "listener " + rec.Extra, rec.Task})
		}
	}
	// responses to requests that reach no handler (no match, no such
	// method) are published by the dispatcher, outside any callback
	hs := handlerSets(e.Case)
	noHandler := map[string]bool{}
	for _, s := range e.Subs {
		if s != nil && s.Kind == "req" {
			if d := model.Predict(e.Pats, hs, s.Op.Subject, e.autoPayload(s.Op), !s.Op.NoReply); d.Handler == "" {
				noHandler[s.Inbox] = true
			}
		}
	}
	for _, p := range e.Conn.PubsSnapshot() {
		if noHandler[p.Subject] {
			continue
		}
		all = append(all, entry{p.Seq, "pub " + p.Subject, p.Task})
	}
	sort.Slice(all, func(i, j int) bool { return all[i].seq < all[j].seq })
	accounted := map[uint64]bool{}
	// the effects (apply, publish, listener) of the callbacks of one group
	// must not interleave: what one callback produces comes entirely before
	// or entirely after what another callback of its group produces
	type span struct {
		id          int
		group       string
		first, last uint64
	}
	var spans []span
	defer func() {
		for i, a := range spans {
			for _, b := range spans[i+1:] {
				if a.group == b.group && a.first < b.last && b.first < a.last {
					e.H.Violate("C08", "group-effects-interleaved", "", fmt.Sprintf("callbacks %d and %d of group %q produced interleaved effects: seq [%d,%d] and [%d,%d]", a.id, b.id, a.group, a.first, a.last, b.first, b.last))
					return
				}
			}
		}
	}()
	for _, s := range e.Subs {
		if s == nil {
			continue
		}
		var w win
		var ok bool
		isReq := s.Kind == "req"
		switch s.Kind {
		case "req", "with", "withres":
			w, ok = wins[s.Op.ID]
			if !ok || w.exit == 0 {
				continue
			}
			if e.Case.MidStop[0] >= 0 && !e.handlerFinished(s) {
				continue
			}
		case "qreq":
			// the callback of a query event: the events it sends on the
			// query request, then the response
			w, ok = wins[s.Op.ID]
			if !ok || w.exit == 0 || len(s.Starts) == 0 {
				continue
			}
			isReq = true
		case "emitscript":
			if s.Invoke == 0 || s.Return == 0 || s.PatID < 0 {
				continue
			}
			if ep := e.Epochs[0]; e.Case.MidStop[0] >= 0 && !(ep.Started != 0 && s.Invoke > ep.Started && ep.ShutdownInvoke != 0 && s.Return < ep.ShutdownInvoke) {
				// an emission from a foreign goroutine that overlaps start-up
				// or Shutdown, or comes after it, may be refused as not
				// started (C03); only those entirely inside the started
				// window are compared
				for _, en := range all {
					if en.seq > s.Invoke && en.seq < s.Return && en.task == s.Actor {
						accounted[en.seq] = true
					}
				}
				continue
			}
			w = win{enter: s.Invoke, exit: s.Return, task: s.Actor}
		default:
			continue
		}
		patID := s.PatID
		rname := s.Op.RID
		if isReq && s.Kind != "qreq" {
			_, rname, _ = SplitSubject(s.Op.Subject)
		}
		if s.Kind == "qreq" {
			for _, q := range e.QEs {
				if q.ID == s.Args0 {
					rname = q.RName
					if mp, _, _ := model.Match(e.Pats, rname); mp != nil {
						patID = mp.ID
					}
				}
			}
			e.Sim.Probe("events sent on a query request checked")
		}
		if patID < 0 {
			continue
		}
		e.H.Evals++
		pat := &e.Case.Pats[patID]
		if i := strings.IndexByte(rname, '?'); i >= 0 {
			rname = rname[:i]
		}
		want := expectEventLog(pat, patID, s.Op.Script, s.Op.ID, rname, s.Inbox, isReq, s.Handler)
		var got []string
		var first, last uint64
		for _, en := range all {
			if en.seq > w.enter && en.seq < w.exit && en.task == w.task {
				got = append(got, en.text)
				accounted[en.seq] = true
				if first == 0 {
					first = en.seq
				}
				last = en.seq
			}
		}
		if s.Kind != "emitscript" && s.Group != "" && first != 0 {
			spans = append(spans, span{s.Op.ID, s.Group, first, last})
		}
		matches := strings.Join(got, "\n") == strings.Join(want, "\n")
		if !matches {
			base := listenerOrder(pat.Listen)
			if pat.Extra3 {
				base = append(append([]int{}, base...), 3)
			}
			permutations(base, func(o []int) bool {
				if strings.Join(got, "\n") == strings.Join(expectEventLogOrder(pat, patID, s.Op.Script, s.Op.ID, rname, s.Inbox, isReq, s.Handler, o), "\n") {
					matches = true
					e.Sim.Probe("listeners of one event called in another order than at the pinned commit")
				}
				return !matches
			})
		}
		if !matches {
			e.H.Violate("C08", "event-sequence", "", fmt.Sprintf("callback %d (%s %s%s) script=%v pattern={type:%d apply:%q listeners:%d}\n got: %s\nwant: %s", s.Op.ID, s.Kind, s.Op.Subject, s.Op.RID, s.Op.Script, pat.Type, pat.Apply, pat.Listen, strings.Join(got, " | "), strings.Join(want, " | ")))
		}
	}
	// every event publish and listener entry must belong to some callback
	// window on its own task (nothing published from another goroutine)
	for _, en := range all {
		if accounted[en.seq] {
			continue
		}
		if strings.HasPrefix(en.text, "pub system.reset") {
			continue
		}
		e.H.Violate("C08", "stray-effect", "", fmt.Sprintf("%q by task %s at seq %d lies outside every callback window of that task", en.text, en.task, en.seq))
	}
}

var _ = model.JSONEqual
var _ = simconn.IsPreResponse

func init() { register(EventsScenario{}) }

// permutations calls f with every permutation of a until f returns false.
func permutations(a []int, f func([]int) bool) {
	var rec func(k int) bool
	b := append([]int{}, a...)
	rec = func(k int) bool {
		if k == len(b) {
			return f(append([]int{}, b...))
		}
		for i := k; i < len(b); i++ {
			b[k], b[i] = b[i], b[k]
			if !rec(k + 1) {
				return false
			}
			b[k], b[i] = b[i], b[k]
		}
		return true
	}
	rec(0)
}
