package scen

import (
	"encoding/json"
	"fmt"
	"math/rand/v2"
	"strconv"
	"strings"
	"sync"
	"time"

	"github.com/jirenius/go-res/resprot"

	"verif/sim/sched"
	"verif/sim/simconn"
)

// SRMsg is one scripted message on the requester's inbox.
type SRMsg struct {
	DelayMs int    `json:"delay_ms"` // after the previous message (or the request)
	Data    string `json:"data"`
	Burst   bool   `json:"burst,omitempty"` // arrives while the requester has not yet started waiting
}

// SRCase is a case of the SendRequest scenario.
type SRCase struct {
	TimeoutMs int     `json:"timeout_ms"`
	Msgs      []SRMsg `json:"msgs"`
	FailSub   bool    `json:"fail_sub,omitempty"`
	FailPub   bool    `json:"fail_pub,omitempty"`
	Req       string  `json:"req"` // "nil" | "obj" | "bad"
	Callbacks int     `json:"callbacks"`
	// SlowCBMs: every extension callback takes this long (simulated time).
	// The extended deadline still counts from the arrival of the
	// pre-response. Such cases keep their messages at least 10 ms apart, so
	// that nothing arrives while the callbacks (at most 8 ms) run.
	SlowCBMs int `json:"slow_cb_ms,omitempty"`
}

// SendReqScenario: SendRequest returns the first real response within the
// extended deadline (C19), tier A: scripted peer on the simulated clock.
type SendReqScenario struct{}

func (SendReqScenario) Name() string { return "sendreq" }

func (SendReqScenario) GenCase(r *rand.Rand, prop string) interface{} {
	c := &SRCase{TimeoutMs: pick(r, 5, 105, 505, 1005, 3005), Req: pick(r, "nil", "obj", "obj", "obj"), Callbacks: r.IntN(3)}
	if chance(r, 4) {
		c.Req = "bad"
	}
	if chance(r, 4) {
		c.FailSub = true
	}
	if chance(r, 4) {
		c.FailPub = true
	}
	n := r.IntN(6)
	for i := 0; i < n; i++ {
		m := SRMsg{DelayMs: pick(r, 0, 10, 10, 50, 100, 500, 1000, 2000, 4000)}
		switch k := r.IntN(100); {
		case k < 35:
			m.Data = `timeout:"` + pick(r, "5", "105", "1005", "5005", "15") + `"`
		case k < 45:
			m.Data = pick(r, `timeout:"abc"`, `timeout:5`, `foo:"15"`, `timeout:""`, `x`, `timeout:"5" extra:"1"`, `Timeout:"55"`)
		case k < 70:
			m.Data = fmt.Sprintf(`{"result":{"n":%d}}`, i)
		case k < 78:
			m.Data = fmt.Sprintf(`{"error":{"code":"test.e%d","message":"E"}}`, i)
		case k < 84:
			m.Data = `{"resource":{"rid":"test.r` + strconv.Itoa(i) + `"}}`
		case k < 90:
			m.Data = pick(r, ``, `{}`, `[1]`, `{bad`, `null`, `12`, `"s"`)
		default:
			m.Data = `{"result":null}`
		}
		if i == 0 && chance(r, 30) {
			m.Burst, m.DelayMs = true, 0
		} else if i > 0 && c.Msgs[i-1].Burst && chance(r, 60) {
			m.Burst, m.DelayMs = true, 0
		}
		c.Msgs = append(c.Msgs, m)
	}
	if c.Callbacks > 0 && chance(r, 35) {
		c.SlowCBMs = 4
		if c.TimeoutMs < 100 {
			c.TimeoutMs = 105
		}
		for i := range c.Msgs {
			m := &c.Msgs[i]
			m.Burst = false
			if m.DelayMs < 10 {
				m.DelayMs = 10
			}
			if chance(r, 30) {
				// just behind a deadline of 105 ms
				m.DelayMs = pick(r, 110, 100)
			}
			if ms, ok := preTimeout(m.Data); ok && ms < 100 {
				// (an extension shorter than the callbacks take would
				// expire while they run)
				m.Data = `timeout:"105"`
			}
		}
	}
	return c
}

func (SendReqScenario) DecodeCase(raw json.RawMessage) (interface{}, error) {
	c := &SRCase{}
	err := json.Unmarshal(raw, c)
	return c, err
}

func (SendReqScenario) Shrinks(ci interface{}) []interface{} {
	c := ci.(*SRCase)
	var out []interface{}
	for i := range c.Msgs {
		n := *c
		n.Msgs = append(append([]SRMsg{}, c.Msgs[:i]...), c.Msgs[i+1:]...)
		out = append(out, &n)
	}
	if c.Callbacks > 0 {
		n := *c
		n.Callbacks = 0
		out = append(out, &n)
	}
	return out
}

type badReq struct{}

func (badReq) MarshalJSON() ([]byte, error) { return nil, fmt.Errorf("cannot marshal request") }

// preTimeout implements the documented pre-response format: key:"value"
// pairs, of which timeout carries a decimal number of milliseconds.
func preTimeout(data string) (int, bool) {
	// walk key:"value" pairs separated by spaces
	s := data
	for s != "" {
		s = strings.TrimLeft(s, " ")
		i := strings.IndexByte(s, ':')
		if i <= 0 || i+1 >= len(s) || s[i+1] != '"' {
			return 0, false
		}
		key := s[:i]
		rest := s[i+2:]
		j := strings.IndexByte(rest, '"')
		if j < 0 {
			return 0, false
		}
		val := rest[:j]
		s = rest[j+1:]
		if key == "timeout" {
			ms, err := strconv.Atoi(val)
			if err != nil {
				return 0, false
			}
			return ms, true
		}
	}
	return 0, false
}

type srExpect struct {
	Kind   string // result | resource | error
	Code   string
	Result string
	RID    string
	At     time.Duration
	Ext    []time.Duration
}

func classifyResponse(data string) srExpect {
	var obj map[string]json.RawMessage
	if data == "" || json.Unmarshal([]byte(data), &obj) != nil || obj == nil {
		return srExpect{Kind: "error", Code: "system.internalError"}
	}
	if e, ok := obj["error"]; ok && string(e) != "null" {
		var ee struct {
			Code string `json:"code"`
		}
		json.Unmarshal(e, &ee)
		return srExpect{Kind: "error", Code: ee.Code}
	}
	if rr, ok := obj["resource"]; ok && string(rr) != "null" {
		var ref struct {
			RID string `json:"rid"`
		}
		json.Unmarshal(rr, &ref)
		return srExpect{Kind: "resource", RID: ref.RID}
	}
	if rs, ok := obj["result"]; ok {
		return srExpect{Kind: "result", Result: string(rs)}
	}
	return srExpect{Kind: "error", Code: "system.internalError"}
}

func isPre(data string) bool {
	return len(data) > 0 && (data[0]|32) >= 'a' && (data[0]|32) <= 'z'
}

// srModel is the timed reference model: it walks the script on the simulated
// clock and predicts the returned response, the instant of return and the
// durations handed to the extension callbacks.
func srModel(c *SRCase) srExpect {
	if c.Req == "bad" || c.FailSub || c.FailPub {
		return srExpect{Kind: "error", Code: "system.internalError", At: 0}
	}
	deadline := time.Duration(c.TimeoutMs) * time.Millisecond
	var now time.Duration
	var ext []time.Duration
	for _, m := range c.Msgs {
		now += time.Duration(m.DelayMs) * time.Millisecond
		if now > deadline {
			break
		}
		if isPre(m.Data) {
			if ms, ok := preTimeout(m.Data); ok {
				d := time.Duration(ms) * time.Millisecond
				deadline = now + d
				ext = append(ext, d)
			}
			continue
		}
		ex := classifyResponse(m.Data)
		ex.At = now
		ex.Ext = ext
		return ex
	}
	return srExpect{Kind: "error", Code: "system.timeout", At: deadline, Ext: ext}
}

func (SendReqScenario) Execute(sim *sched.Sim, ci interface{}, prop string, race bool) *Outcome {
	c := ci.(*SRCase)
	h := NewHist(sim)
	sim.Optional = nil
	cb, _ := json.Marshal(c)
	sim.Note("case:" + string(cb))
	useCanon(sim)
	conn := simconn.New(sim)
	conn.YieldAfterPublish = true
	if c.FailSub {
		conn.FailSubscribe = func(string) error { return fmt.Errorf("simulated subscribe failure") }
	}
	if c.FailPub {
		conn.FailPublish = func(string) error { return fmt.Errorf("simulated publish failure") }
	}
	var got resprot.Response
	var gotAt time.Duration
	var exts [][]time.Duration
	var extMu sync.Mutex
	var extsAtReturn [][]time.Duration
	foreignCB := 0
	start := time.Now()
	cbs := make([]func(time.Duration), c.Callbacks)
	exts = make([][]time.Duration, c.Callbacks)
	for i := range cbs {
		i := i
		cbs[i] = func(d time.Duration) {
			if t := sim.Current(); t == nil || t.Name != "requester" {
				// called from a goroutine of its own, which is the
				// library's business as long as the notification is
				// complete when SendRequest returns: the goroutine is a
				// task of the run, released at a moment of the tape's
				// choosing (before simulated time passes, see below)
				extMu.Lock()
				foreignCB++
				extMu.Unlock()
				sim.Yield("cb.foreign", strconv.Itoa(i))
			}
			extMu.Lock()
			exts[i] = append(exts[i], d)
			extMu.Unlock()
			if c.SlowCBMs > 0 {
				sim.Probe("slow extension callback")
				time.Sleep(time.Duration(c.SlowCBMs) * time.Millisecond)
			}
		}
	}
	task := sim.Go("requester", func() {
		var req interface{}
		switch c.Req {
		case "obj":
			req = map[string]interface{}{"params": map[string]int{"a": 1}}
		case "bad":
			req = badReq{}
		}
		start = time.Now()
		got = resprot.SendRequest(conn, "call.test.model.set", req, time.Duration(c.TimeoutMs)*time.Millisecond, cbs...)
		gotAt = time.Since(start)
		// what the callbacks have been told by the time the call returns
		extMu.Lock()
		for i := range exts {
			exts[i] = append([]time.Duration(nil), exts[i]...)
		}
		atReturn := make([][]time.Duration, len(exts))
		copy(atReturn, exts)
		extsAtReturn = atReturn
		extMu.Unlock()
		sim.Yield("call.return", "sendrequest")
	})
	inbox := func() *simconn.Sub {
		subs := conn.AllSubs()
		if len(subs) == 0 {
			return nil
		}
		return subs[0]
	}
	// run until the request is out (requester parked directly after its publish)
	for i := 0; i < 50; i++ {
		sim.Wait()
		if task.IsDone() || (task.IsParked() && (task.Point == "conn.Published" || task.Point == "call.return")) {
			break
		}
		if !sim.Decide(nil) {
			break
		}
	}
	slow := 0
	// dropped although the inbox channel held nothing: no earlier message
	// was waiting, the requester was just not receiving at that instant
	// (running an extension callback, say) - not the known capacity-1
	// finding, which needs a message in the buffer
	slowEmpty := 0
	deliver := func(m SRMsg) {
		s := inbox()
		if s == nil {
			return
		}
		ds := conn.Inject(s.Subject, "", []byte(m.Data))
		_ = ds
		if d := conn.DeliverHead(false); d != nil && d.Dropped == "slow" {
			slow++
			if d.Buffered == 0 {
				slowEmpty++
			}
		}
	}
	i := 0
	for ; i < len(c.Msgs) && c.Msgs[i].Burst; i++ {
		deliver(c.Msgs[i])
	}
	if task.IsParked() && task.Point == "conn.Published" {
		sim.Decide(nil)
	}
	// extension callbacks running on goroutines of their own are held at
	// their entry; they are let go before simulated time passes (so that the
	// reference timing stays exact) and otherwise when the tape says so: a
	// message that follows in the same instant may overtake them
	releaseCBs := func() {
		for sim.Decide(func(t *sched.Task) bool { return t.Point == "cb.foreign" }) {
		}
	}
	var slept time.Duration
	for ; i < len(c.Msgs); i++ {
		d := time.Duration(c.Msgs[i].DelayMs) * time.Millisecond
		if d > 0 || sim.Tape.Choose(2) == 0 {
			releaseCBs()
		}
		if d > 0 {
			time.Sleep(d)
			slept += d
		}
		sim.Wait()
		deliver(c.Msgs[i])
		sim.Wait()
	}
	releaseCBs()
	for k := 0; k < 80 && !(task.IsParked() && task.Point == "call.return") && !task.IsDone(); k++ {
		time.Sleep(time.Second)
		slept += time.Second
		sim.Wait()
	}
	returned := task.IsDone() || (task.IsParked() && task.Point == "call.return")
	for sim.Decide(nil) {
	}
	want := srModel(c)
	desc := fmt.Sprintf("case %+v: expected %s code=%q result=%s rid=%q at %v ext=%v", *c, want.Kind, want.Code, want.Result, want.RID, want.At, want.Ext)
	switch {
	case !returned:
		h.Violate("C19", "no-return", "", "SendRequest did not return within 80 simulated seconds after the last scripted message; "+desc)
	default:
		gotKind := "result"
		switch {
		case got.HasError():
			gotKind = "error"
		case got.HasResource():
			gotKind = "resource"
		}
		ok := gotKind == want.Kind
		if ok {
			switch want.Kind {
			case "error":
				ok = got.Error.Code == want.Code
			case "resource":
				ok = string(got.Resource) == want.RID
			case "result":
				ok = jsonEq(string(got.Result), want.Result)
			}
		}
		cls, sig := "", ""
		extOK := true
		extMu.Lock()
		exts = extsAtReturn
		extMu.Unlock()
		for i := range exts {
			if fmt.Sprint(exts[i]) != fmt.Sprint(want.Ext) && !(len(exts[i]) == 0 && len(want.Ext) == 0) {
				extOK = false
			}
		}
		if !ok {
			cls = "wrong-response"
		} else if gotAt != want.At {
			cls = "wrong-return-instant"
		}
		if (cls != "" || !extOK) && slow > 0 && slowEmpty == 0 {
			// a message that reached the inbox was dropped because the
			// inbox channel (capacity 1) was full
			cls, sig, extOK = "inbox-message-lost", "channel-full", true
		}
		if cls != "" {
			gotDesc := fmt.Sprintf("%s", gotKind)
			if got.Error != nil {
				gotDesc += " " + got.Error.Code
			}
			h.Violate("C19", cls, sig, fmt.Sprintf("SendRequest returned %s result=%s rid=%q at %v (inbox messages dropped on a full channel: %d); %s", gotDesc, got.Result, got.Resource, gotAt, slow, desc))
		}
		extMu.Lock()
		fcb := foreignCB
		extMu.Unlock()
		if fcb > 0 {
			sim.Probe("extension callback on a goroutine of its own")
		}
		if !extOK && ok {
			h.Violate("C19", "extension-callbacks", "", fmt.Sprintf("callbacks got %v, expected %v each; %s", exts, want.Ext, desc))
		}
	}
	// (the release of the inbox subscription is not visible on the scripted
	// connection, whose *nats.Subscription values are not backed by a client:
	// it is checked in tier B, over real connections)
	out := &Outcome{Faults: map[string]int{"inbox-channel-full-drop": slow}, Evals: 1, SimTime: slept}
	if c.FailSub {
		out.Faults["subscribe-error"] = 1
	}
	if c.FailPub {
		out.Faults["publish-error"] = 1
	}
	out.Sample = c
	for _, v := range h.Viol {
		if prop == "" || v.Property == prop {
			out.Violations = append(out.Violations, v)
		}
	}
	return out
}

func jsonEq(a, b string) bool {
	var x, y interface{}
	if json.Unmarshal([]byte(a), &x) != nil || json.Unmarshal([]byte(b), &y) != nil {
		return a == b
	}
	return fmt.Sprint(x) == fmt.Sprint(y)
}

func init() { register(SendReqScenario{}) }
