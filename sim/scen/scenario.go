package scen

import (
	"encoding/json"
	"io"
	"math/rand/v2"
	"time"

	"verif/sim/sched"
)

// Outcome is what one simulated run produced.
type Outcome struct {
	Violations   []*Violation
	Evals        int
	Faults       map[string]int
	States       []string
	SimTime      time.Duration
	Sample       interface{}
	Inconclusive int
	Debug        func(w io.Writer)
	// Post, when set, runs after the bubble has ended (on the real clock).
	Post func(o *Outcome)
}

// Scenario is one simulated system configuration family.
type Scenario interface {
	Name() string
	// GenCase draws a case (configuration + scripts) from the PRNG.
	GenCase(r *rand.Rand, prop string) interface{}
	// DecodeCase parses a case from a replay file.
	DecodeCase(raw json.RawMessage) (interface{}, error)
	// Execute runs the case inside the bubble.
	Execute(sim *sched.Sim, c interface{}, prop string, race bool) *Outcome
	// Shrinks returns simpler variants of the case.
	Shrinks(c interface{}) []interface{}
}

var scenarios = map[string]Scenario{}

func register(s Scenario) { scenarios[s.Name()] = s }

// splitmix64 derives run seeds.
func splitmix64(x uint64) uint64 {
	x += 0x9e3779b97f4a7c15
	z := x
	z = (z ^ (z >> 30)) * 0xbf58476d1ce4e5b9
	z = (z ^ (z >> 27)) * 0x94d049bb133111eb
	return z ^ (z >> 31)
}

func strHash(s string) uint64 {
	var h uint64 = 1469598103934665603
	for i := 0; i < len(s); i++ {
		h ^= uint64(s[i])
		h *= 1099511628211
	}
	return h
}

// RunSeed derives the seed of run index i of a scenario from VERIF_SEED.
func RunSeed(base uint64, scenario string, i int) uint64 {
	return splitmix64(splitmix64(base^strHash(scenario)) + uint64(i))
}
