package scen

import (
	"encoding/json"
	"fmt"
	"math/rand/v2"
	"reflect"
	"strconv"
	"strings"

	"github.com/jirenius/go-res/resprot"

	"verif/sim/model"
	"verif/sim/sched"
	"verif/sim/simconn"
)

// RequestsScenario: request/response behaviour under concurrent load with
// handler behaviour scripts (C04, C05, C07).
type RequestsScenario struct{}

func (RequestsScenario) Name() string { return "requests" }

func genScript(r *rand.Rand, handler string, typ int, isHTTP bool, hasCID bool) []string {
	var sc []string
	pre := []string{"y", "y", "t:500", "t:0", "ev:custom", "val", "reaccess"}
	if isHTTP {
		pre = append(pre, "status", "header", "status", "header")
	} else if chance(r, 5) {
		pre = append(pre, "status")
	}
	// a handler that sets a status only when the request says it is HTTP,
	// as real handlers do (seeded change C07v: a stale HTTP flag)
	pre = append(pre, "statusif")
	switch typ {
	case 1:
		pre = append(pre, "chg:a")
	case 2:
		pre = append(pre, "add:0", "rm:0")
	default:
		pre = append(pre, "chg:a", "add:1")
	}
	if chance(r, 8) {
		pre = append(pre, "evraw:raw")
	}
	// the library's own decoding of params and token, which raises the
	// errors the protocol prescribes
	if strings.HasPrefix(handler, "call") || strings.HasPrefix(handler, "auth") || handler == "new" {
		pre = append(pre, "pp", "pt")
	} else if handler == "access" {
		pre = append(pre, "pt")
	}
	if chance(r, 4) {
		// an event that is invalid for the resource type
		pre = append(pre, "chg:x", "add:0", "rm:1")
	}
	if strings.HasPrefix(handler, "auth") && hasCID {
		pre = append(pre, "tokenev")
	}
	for i, n := 0, r.IntN(4); i < n; i++ {
		sc = append(sc, pick(r, pre...))
	}
	var replies []string
	switch {
	case handler == "access":
		replies = []string{"granted", "denied", "access", "accessnone", "notfound", "err", "plainerr", "invquery", "unmarshalable", "panicmarshal"}
	case handler == "get":
		if typ == 2 {
			replies = []string{"coll", "qcoll", "notfound", "err", "invquery", "invquerymsg", "unmarshalable", "panicmarshal"}
		} else {
			replies = []string{"model", "qmodel", "notfound", "err", "invquery", "plainerr", "unmarshalable", "panicmarshal"}
		}
	case handler == "new":
		replies = []string{"new", "notfound", "err", "invparams", "methodnotfound", "invparamsmsg"}
	default:
		replies = []string{"ok", "oknil", "resource", "notfound", "err", "plainerr", "invparams", "invparamsmsg", "invquery", "methodnotfound", "unmarshalable", "panicmarshal"}
	}
	replies = append(replies, "errnomsg")
	switch k := r.IntN(100); {
	case k < 68:
		sc = append(sc, "r:"+pick(r, replies...))
	case k < 78:
		// no reply at all
	case k < 90:
		sc = append(sc, "p:"+pick(r, "reserr", "err", "str", "int", "nil", "wraperr", "reserrnomsg", "reserrbad"))
	default:
		sc = append(sc, "r:"+pick(r, replies...), pick(r, "r:ok", "r:notfound", "p:str", "p:reserr", "status", "t:50", "ev:late"))
	}
	if chance(r, 15) {
		sc = append(sc, pick(r, "y", "t:50", "ev:after"))
	}
	return sc
}

func genPayload(r *rand.Rand, id int, auth bool) (string, bool, bool) {
	m := map[string]interface{}{}
	q := "id=" + strconv.Itoa(id)
	if chance(r, 40) {
		q += "&" + pick(r, "a=1", "limit=10&from=0", "q=%20x", "s=a.b.c", "x=\"y\"")
	}
	m["query"] = q
	hasCID := chance(r, 85)
	if hasCID {
		m["cid"] = "c" + strconv.Itoa(id)
	}
	if chance(r, 70) {
		m["params"] = pick[interface{}](r, map[string]interface{}{"n": id}, []int{id, 2}, "str", id, nil, map[string]interface{}{"nested": map[string]interface{}{"k": []interface{}{1, "two", nil}}})
	}
	if chance(r, 60) {
		m["token"] = pick[interface{}](r, map[string]interface{}{"t": id}, "tok-"+strconv.Itoa(id), nil, 12.5)
	}
	isHTTP := chance(r, 35)
	if isHTTP {
		m["isHttp"] = true
	}
	if auth || chance(r, 10) {
		if chance(r, 80) {
			m["header"] = map[string][]string{"X-Id": {strconv.Itoa(id)}, "Accept": {"a", "b"}}
		}
		m["host"] = "host" + strconv.Itoa(id) + ".example"
		m["remoteAddr"] = "10.0.0." + strconv.Itoa(id%250) + ":1234"
		m["uri"] = "/api/x?id=" + strconv.Itoa(id)
	}
	if chance(r, 10) {
		m["unknownField"] = map[string]int{"z": 1}
	}
	b, _ := json.Marshal(m)
	return string(b), isHTTP, hasCID
}

func (RequestsScenario) GenCase(r *rand.Rand, prop string) interface{} {
	c := &SvcCase{SvcName: "test", Gate: true, Epochs: 1, MidStop: []int{-1}}
	if chance(r, 15) {
		// Shutdown in the middle of the load: requests may be cut off, but
		// none may be answered twice and none whose handler ran may go
		// unanswered
		c.MidStop = []int{20 + r.IntN(150)}
	} else if chance(r, 12) {
		// a restart: the first epoch is cut off, the second is served to
		// quiescence and must answer every request again
		c.Epochs = 2
		c.MidStop = []int{10 + r.IntN(120), -1}
		c.OverlapServe = chance(r, 50)
	}
	c.Workers = pick(r, 1, 2, 3, 4, 8, 32)
	c.InCh = pick(r, 2, 4, 8, 1024, 1024)
	c.QueryMs = 1000
	c.Pats = genPatterns(r, true)
	switch r.IntN(3) {
	case 0:
		c.Optional = []string{"*"}
	default:
		for _, p := range optionalPoints {
			if chance(r, 50) {
				c.Optional = append(c.Optional, p)
			}
		}
	}
	if chance(r, 10) {
		c.LosePct = 10
	}
	if chance(r, 10) {
		c.PubFailPct = 15
	}
	if chance(r, 20) {
		// ownership wider than the service's name
		c.Owned = &[2][]string{{">"}, {">"}}
	}
	hs := handlerSets(c)
	pats := patsOf(c)
	id := 0
	peer := ActorSpec{Name: "peer"}
	used := map[string]bool{}
	n := 5 + r.IntN(16)
	for i := 0; i < n; i++ {
		id++
		p := &c.Pats[r.IntN(len(c.Pats))]
		rname := instantiate(r, c.FullPattern(p), false)
		if chance(r, 8) {
			rname = pick(r, "test.nomatch", "test.model", "test", "other.model.1", "test.sub.item", "test.model.1.set.new")
		}
		if c.Owned != nil && chance(r, 25) {
			// the service owns more than its own namespace: a foreign name
			// that merely begins with the service's name is not its resource
			rname = pick(r, strings.Replace(rname, ".", "", 1), strings.Replace(rname, ".", "s.", 1), "other."+rname)
		}
		rtype := pick(r, "access", "get", "get", "call", "call", "call", "auth")
		method := ""
		switch rtype {
		case "call":
			method = pick(r, append([]string{"set", "new", "unknown", "foo"}, p.Calls...)...)
			if method == "*" {
				method = "star"
			}
		case "auth":
			method = pick(r, append([]string{"login", "unknown", "new"}, p.Auths...)...)
			if method == "*" {
				method = "star"
			}
		}
		subj := rtype + "." + rname
		if method != "" {
			subj += "." + method
		}
		op := Op{ID: id, Kind: "req", Subject: subj}
		isHTTP, hasCID := false, false
		switch k := r.IntN(100); {
		case k < 82:
			op.Payload, isHTTP, hasCID = genPayload(r, id, rtype == "auth")
		case k < 88:
			op.Payload = pick(r, "<empty>", "null", "{}")
		default:
			// (the last two are well-formed JSON with one field of the wrong
			// type next to a full set of others: whatever the decoder took
			// from them before it failed must not show up in the request
			// that is decoded next - seeded change C05u)
			op.Payload = pick(r, "{bad", "[1,2]", "\"str\"", "{\"cid\":5}", "{\"query\":{}}", "12", "{\"isHttp\":\"yes\"}", "{\"params\":}",
				`{"token":{"leak":1},"params":{"leak":2},"header":{"X-Leak":["1"]},"host":"leak.example","remoteAddr":"6.6.6.6","uri":"/leak","query":"leak=1","isHttp":true,"cid":5}`,
				`{"cid":"leak","token":{"leak":3},"params":{"leak":4},"header":{"X-Leak":["2"]},"host":"leak.example","remoteAddr":"6.6.6.6","uri":"/leak","isHttp":true,"query":{}}`)
		}
		f, ok := model.ParseRequest(payloadBytes(op.Payload))
		if ok && idFromQuery(f.Query) != id {
			// the handler cannot identify this request by id: keep the
			// subject unique among such requests instead
			if used[subj] {
				id--
				continue
			}
			used[subj] = true
		}
		if chance(r, 4) {
			op.NoReply = true
		}
		d := model.Predict(pats, hs, subj, payloadBytes(op.Payload), !op.NoReply)
		if d.Handler != "" {
			op.Script = genScript(r, d.Handler, c.Pats[d.PatID].Type, isHTTP, hasCID)
		}
		if c.Epochs > 1 {
			op.Ep = r.IntN(c.Epochs)
		}
		peer.Ops = append(peer.Ops, op)
	}
	sortOpsByEpoch(peer.Ops)
	c.Actors = append(c.Actors, peer)
	// a producer to keep other groups busy
	if chance(r, 50) {
		a := ActorSpec{Name: "prod1"}
		for i, k := 0, 1+r.IntN(4); i < k; i++ {
			id++
			p := &c.Pats[r.IntN(len(c.Pats))]
			a.Ops = append(a.Ops, Op{ID: id, Kind: "with", RID: instantiate(r, c.FullPattern(p), true), Script: append(yields(r, 2), "ev:prod")})
		}
		c.Actors = append(c.Actors, a)
	}
	return c
}

func payloadBytes(p string) []byte {
	if p == "<empty>" {
		return nil
	}
	return []byte(p)
}

func (RequestsScenario) DecodeCase(raw json.RawMessage) (interface{}, error) {
	c := &SvcCase{}
	err := json.Unmarshal(raw, c)
	return c, err
}

func (RequestsScenario) Shrinks(c interface{}) []interface{} { return shrinkSvcCase(c.(*SvcCase)) }

func (RequestsScenario) Execute(sim *sched.Sim, ci interface{}, prop string, race bool) *Outcome {
	c := ci.(*SvcCase)
	run := RunSvc(sim, c, race, func(e *Engine) {
		e.OnQuiescent = func(ep int) { e.checkRequests(ep) }
	})
	if !race {
		run.CheckOrder()
		run.CheckLifecycle()
		if c.MidStop[0] >= 0 {
			run.E.checkRequestsCutOff()
		}
		// panics of harness tasks in this scenario belong to C04
		for _, v := range run.H.Viol {
			if v.Property == "C03" && v.Class == "panic" {
				v.Property = "C04"
			}
		}
	}
	return run.Outcome(prop)
}

// checkRequests is the C04/C05 oracle, evaluated at quiescence.
func (e *Engine) checkRequests(ep int) {
	hs := handlerSets(e.Case)
	pubs := e.Epochs[ep].Conn.PubsSnapshot()
	byInbox := map[string][]*simconn.PubRec{}
	for _, p := range pubs {
		byInbox[p.Subject] = append(byInbox[p.Subject], p)
	}
	for _, s := range e.Subs {
		if s == nil || s.Kind != "req" || s.Invoke == 0 || s.Epoch != ep {
			continue
		}
		e.H.Evals++
		payload := e.autoPayload(s.Op)
		d := model.Predict(e.Pats, hs, s.Op.Subject, payload, !s.Op.NoReply)
		var resp, pre []*simconn.PubRec
		for _, p := range byInbox[s.Inbox] {
			if simconn.IsPreResponse(p.Data) {
				pre = append(pre, p)
			} else {
				resp = append(resp, p)
			}
		}
		id := s.Op.ID
		delivered := s.Delivered != 0
		if !delivered {
			// lost, dropped as slow consumer, or not routed: excused, but
			// then nothing may happen at all
			if len(resp) > 0 || len(s.Starts) > 0 {
				e.H.Violate("C04", "response-to-undelivered", "", fmt.Sprintf("request %d (%s) was %q but got %d responses, %d handler starts", id, s.Op.Subject, s.Dropped, len(resp), len(s.Starts)))
			}
			continue
		}
		want := 1
		if d.Response == "none" {
			want = 0
		}
		// a publish the connection refused (injected fault) did not answer
		// the request: trying again afterwards is not a second response,
		// whereas any attempt after one that went out is
		countOK := len(resp) == want
		if want == 1 && len(resp) > 1 {
			countOK = true
			for _, p := range resp[:len(resp)-1] {
				if p.Err == nil {
					countOK = false
				}
			}
		}
		// (the response compared below is the one that went out, if any)
		for i, p := range resp {
			if p.Err == nil {
				resp[0], resp[i] = resp[i], resp[0]
				break
			}
		}
		if !countOK {
			cls := "no-response"
			if len(resp) > want {
				cls = "multiple-responses"
			}
			e.H.Violate("C04", cls, d.Handler, fmt.Sprintf("request %d %s payload=%q script=%v: %d responses on its reply subject, expected %d (dispatch: handler=%q response=%q)", id, s.Op.Subject, s.Op.Payload, s.Op.Script, len(resp), want, d.Handler, d.Response))
		}
		// ---- C05: dispatch refinement ----
		if d.Handler == "" {
			if len(s.Starts) != 0 {
				e.H.Violate("C05", "unexpected-handler", "", fmt.Sprintf("request %d %s: handler %q ran but the dispatch model says none (%s)", id, s.Op.Subject, s.Handler, d.Response))
			}
			if want == 1 && len(resp) >= 1 {
				code := model.ErrorCode(resp[0].Data)
				if code != d.Response {
					e.H.Violate("C05", "wrong-error", d.Response, fmt.Sprintf("request %d %s payload=%q: response %s, expected error %s", id, s.Op.Subject, s.Op.Payload, resp[0].Data, d.Response))
				}
				if d.Response != "system.internalError" {
					msg := model.StdMsg[d.Response]
					if !model.JSONEqual(string(resp[0].Data), fmt.Sprintf(`{"error":{"code":%q,"message":%q}}`, d.Response, msg)) {
						e.H.Violate("C05", "wrong-error-payload", d.Response, fmt.Sprintf("request %d: %s", id, resp[0].Data))
					}
				}
			}
			continue
		}
		if len(s.Starts) != 1 || s.Handler != d.Handler {
			e.H.Violate("C05", "wrong-handler", "", fmt.Sprintf("request %d %s: handler %q ran %d times, dispatch model expects %q once", id, s.Op.Subject, s.Handler, len(s.Starts), d.Handler))
			continue
		}
		f, _ := model.ParseRequest(payload)
		if v := s.View; v != nil {
			hdr, _ := json.Marshal(f.Header)
			exp := ReqView{Kind: v.Kind, PatID: d.PatID, RegMethod: v.RegMethod, RName: d.RName, Method: d.Method, Params: d.Params, Query: f.Query,
				CID: f.CID, Token: f.Token, RawParams: f.Params, Header: string(hdr), Host: f.Host, RemoteAddr: f.RemoteAddr, URI: f.URI, IsHTTP: f.IsHTTP, Group: d.Group}
			if len(exp.Params) == 0 && len(v.Params) == 0 {
				exp.Params, v.Params = nil, nil
			}
			if !reflect.DeepEqual(exp, *v) {
				e.H.Violate("C05", "altered-request-data", "", fmt.Sprintf("request %d %s: handler saw %+v, peer sent %+v", id, s.Op.Subject, *v, exp))
			}
		}
		typ := e.Case.Pats[d.PatID].Type
		ex := model.PredictResponse(d.Handler, model.ExpandParse(s.Op.Script, f.Params, f.Token), id, f.IsHTTP, d.RName, typ, f.CID)
		if len(resp) >= 1 {
			got := resp[0].Data
			okPayload := true
			if ex.Payload != "" {
				okPayload = model.ResponseEqual(string(got), ex.Payload)
			} else if ex.Code != "" {
				okPayload = model.ErrorCode(got) == ex.Code
			}
			if !okPayload {
				e.H.Violate("C05", "wrong-response", "", fmt.Sprintf("request %d %s handler=%s script=%v isHttp=%v: response %s, model expects %s (code %q)", id, s.Op.Subject, d.Handler, s.Op.Script, f.IsHTTP, got, ex.Payload, ex.Code))
			}
			// the client package must classify it the same way
			pr := resprot.ParseResponse(got)
			if pr.HasError() != (ex.Code != "") {
				e.H.Violate("C05", "client-classification", "", fmt.Sprintf("request %d: resprot.ParseResponse(%s).HasError()=%v, expected error code %q", id, got, pr.HasError(), ex.Code))
			}
		}
		if len(pre) != len(ex.Pre) {
			e.H.Violate("C05", "pre-response-count", "", fmt.Sprintf("request %d script=%v: %d pre-responses, expected %d", id, s.Op.Script, len(pre), len(ex.Pre)))
		} else {
			for i := range pre {
				if string(pre[i].Data) != ex.Pre[i] {
					e.H.Violate("C05", "pre-response-content", "", fmt.Sprintf("request %d: pre-response %q, expected %q", id, pre[i].Data, ex.Pre[i]))
				}
			}
		}
	}
}

// checkRequestsCutOff is the C04 oracle for runs in which Shutdown cut the
// load off: a request is never answered twice, and a request whose handler
// ran always has its one response attempted (the publish may fail on the
// closed connection).
func (e *Engine) checkRequestsCutOff() {
	byInbox := map[string]int{}
	for _, ep := range e.Epochs {
		for _, p := range ep.Conn.PubsSnapshot() {
			if !simconn.IsPreResponse(p.Data) {
				byInbox[p.Subject]++
			}
		}
	}
	for _, s := range e.Subs {
		if s == nil || s.Kind != "req" || s.Invoke == 0 || s.Op.NoReply {
			continue
		}
		e.H.Evals++
		n := byInbox[s.Inbox]
		if n > 1 {
			e.H.Violate("C04", "multiple-responses", "cut-off", fmt.Sprintf("request %d %s got %d responses in a run cut off by Shutdown", s.Op.ID, s.Op.Subject, n))
		}
		if len(s.Starts) == 1 && len(s.Ends) == 0 && n == 0 {
			// handler ran to its end (the exit record is in the history) but nothing was attempted
		}
		if len(s.Starts) == 1 && n == 0 && e.handlerFinished(s) {
			e.H.Violate("C04", "no-response", "cut-off", fmt.Sprintf("request %d %s script=%v: its handler ran to the end but no response was attempted", s.Op.ID, s.Op.Subject, s.Op.Script))
		}
	}
}

// handlerFinished reports whether the callback of the submission has an exit
// record.
func (e *Engine) handlerFinished(s *Submission) bool {
	for _, r := range e.H.Recs {
		if r.Kind == "cb.exit" && r.Sub == s.Op.ID {
			return true
		}
	}
	return false
}

func init() {
	register(RequestsScenario{})
}
