//go:build race

package scen

import "runtime"

func raceErrors() int { return runtime.RaceErrors() }
