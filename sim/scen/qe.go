package scen

import (
	"encoding/json"
	"errors"
	"fmt"
	"strconv"
	"strings"
	"time"

	res "github.com/jirenius/go-res"

	"verif/sim/model"
	"verif/sim/sched"
	"verif/sim/simconn"
)

// applyOptions registers apply handlers per the pattern spec. They record
// into the global log on the calling goroutine.
func (e *Engine) applyOptions(pi int, p *PatSpec) []res.Option {
	var opts []res.Option
	if p.Apply == "" {
		return nil
	}
	fail := func(r res.Resource, what string) error {
		e.H.Rec("apply", "", pi, what+" "+r.ResourceName())
		switch p.Apply {
		case "fail":
			return errors.New("apply failed")
		case "failnotfound":
			// the natural error of a store-backed apply handler
			return res.ErrNotFound
		case "failreserr":
			return &res.Error{Code: "test.apply", Message: "apply refused"}
		}
		return nil
	}
	if p.Type != 2 {
		opts = append(opts, res.ApplyChange(func(r res.Resource, ch map[string]interface{}) (map[string]interface{}, error) {
			if err := fail(r, "change"); err != nil {
				return nil, err
			}
			if p.Apply == "nochange" {
				return map[string]interface{}{}, nil
			}
			rev := map[string]interface{}{}
			for k := range ch {
				rev[k] = "old-" + k
			}
			return rev, nil
		}))
	}
	if p.Type != 1 {
		opts = append(opts, res.ApplyAdd(func(r res.Resource, v interface{}, idx int) error {
			return fail(r, "add")
		}))
		opts = append(opts, res.ApplyRemove(func(r res.Resource, idx int) (interface{}, error) {
			if err := fail(r, "remove"); err != nil {
				return nil, err
			}
			return "removed-" + strconv.Itoa(idx), nil
		}))
	}
	opts = append(opts, res.ApplyCreate(func(r res.Resource, data interface{}) error {
		return fail(r, "create")
	}))
	opts = append(opts, res.ApplyDelete(func(r res.Resource) (interface{}, error) {
		if err := fail(r, "delete"); err != nil {
			return nil, err
		}
		return "deleted-" + r.ResourceName(), nil
	}))
	return opts
}

// startQE starts a query event from inside a callback.
func (e *Engine) startQE(s *Submission, r res.Resource, arg string) {
	q := &QEInfo{RName: r.ResourceName(), Group: s.Group, Parallel: s.Parallel, Start: time.Now()}
	if arg != "" {
		q.Script = strings.Split(arg, ",")
	}
	e.H.mu.Lock()
	q.ID = len(e.QEs) + 1
	e.QEs = append(e.QEs, q)
	e.H.mu.Unlock()
	conn := e.Conn
	q.StartSeq = e.H.Rec("qe.start", q.Group, q.ID, q.RName)
	r.QueryEvent(func(qr res.QueryRequest) { e.qeCallback(q, qr) })
	// the subject is the one announced by this task's query event
	task := ""
	if t := e.Sim.Current(); t != nil {
		task = t.Name
	}
	for _, p := range conn.PubsSnapshot() {
		if p.Seq > q.StartSeq && p.Task == task && p.Subject == "event."+q.RName+".query" {
			var ev struct {
				Subject string `json:"subject"`
			}
			json.Unmarshal(p.Data, &ev)
			q.Subject = ev.Subject
		}
	}
	if q.Subject == "" {
		q.SubFailed = true
	} else {
		// C15: the subject is fresh - no earlier query event of this
		// service, in this or an earlier Serve call, was announced with it
		// (a peer still holding the earlier subject would reach this event)
		e.H.mu.Lock()
		for _, o := range e.QEs {
			if o != q && o.Subject == q.Subject {
				e.H.mu.Unlock()
				e.H.Violate("C15", "query-subject-reused", "", fmt.Sprintf("query event %d on %s was announced with the subject of query event %d on %s", q.ID, q.RName, o.ID, o.RName))
				e.H.mu.Lock()
				break
			}
		}
		e.H.mu.Unlock()
	}
}

func (e *Engine) qeCallback(q *QEInfo, qr res.QueryRequest) {
	if qr == nil {
		if q.SubFailed || q.Subject == "" {
			// synchronous nil call from a failed subscription: runs inside
			// the starting callback, not as a callback of its own.
			e.H.Rec("qe.nil.sync", q.Group, q.ID, "")
			e.H.mu.Lock()
			q.NilCalls = append(q.NilCalls, e.Sim.Seq())
			q.NilAt = append(q.NilAt, time.Now())
			e.H.mu.Unlock()
			return
		}
		e.H.Enter(q.Group, -q.ID, "qexpire")
		if q.Group != "" {
			p := e.scratchFor(q.Group)
			*p++
		}
		e.H.mu.Lock()
		q.NilCalls = append(q.NilCalls, e.Sim.Seq())
		q.NilAt = append(q.NilAt, time.Now())
		e.H.mu.Unlock()
		e.Sim.Yield("handler", "qexpire")
		e.H.Exit(q.Group, -q.ID, "qexpire")
		return
	}
	id := idFromQuery(qr.Query())
	var s *Submission
	if id > 0 && id < len(e.Subs) {
		s = e.Subs[id]
	}
	sid := 0
	if s != nil {
		sid = s.Op.ID
	}
	e.H.Enter(q.Group, sid, "qreq")
	if q.Group != "" {
		p := e.scratchFor(q.Group)
		*p++
	}
	e.H.mu.Lock()
	q.Calls = append(q.Calls, e.Sim.Seq())
	if s != nil {
		s.Starts = append(s.Starts, e.Sim.Seq())
	}
	e.H.mu.Unlock()
	defer e.H.Exit(q.Group, sid, "qreq")
	script := q.Script
	if s != nil && len(s.Op.Script) > 0 {
		script = s.Op.Script
	}
	for _, a := range script {
		if strings.HasPrefix(a, "ev:") {
			// an event sent on the query request is an event of the resource:
			// applied, published, announced to the listeners
			if pad := model.PadFor(sid); pad != "" {
				qr.Event(a[3:], map[string]interface{}{"n": sid, "pad": pad})
			} else {
				qr.Event(a[3:], map[string]interface{}{"n": sid})
			}
			continue
		}
		switch a {
		case "create":
			qr.CreateEvent(map[string]interface{}{"c": sid})
		case "delete":
			qr.DeleteEvent()
		case "y":
			e.Sim.Yield("handler", "qreq")
		case "model":
			if pad := model.PadFor(sid); pad != "" {
				qr.Model(map[string]interface{}{"q": sid, "pad": pad})
			} else {
				qr.Model(map[string]interface{}{"q": sid})
			}
		case "coll":
			qr.Collection([]interface{}{"q", sid})
		case "chg":
			qr.ChangeEvent(map[string]interface{}{"q": sid})
		case "add":
			qr.AddEvent("q", 0)
		case "rm":
			qr.RemoveEvent(0)
		case "notfound":
			qr.NotFound()
		case "invquery":
			qr.InvalidQuery("")
		case "err":
			qr.Error(&res.Error{Code: "test.qerr", Message: "q"})
		case "timeout":
			qr.Timeout(2 * time.Second)
		case "p:reserr":
			panic(&res.Error{Code: "test.qpanic", Message: "q"})
		case "errnomsg":
			qr.Error(&res.Error{Code: "test.qnomsg"})
		case "p:err":
			panic(errors.New("q plain"))
		case "p:str":
			panic("q string")
		case "p:int":
			panic(7)
		}
	}
}

// doQueryReq sends a query request to the k-th query event.
func (e *Engine) doQueryReq(s *Submission, op *Op) {
	k := 0
	if len(op.Args) > 0 {
		k, _ = strconv.Atoi(op.Args[0])
	}
	e.H.mu.Lock()
	var q *QEInfo
	if k < len(e.QEs) {
		q = e.QEs[k]
	}
	e.H.mu.Unlock()
	if q == nil || q.Subject == "" {
		s.Dropped = "no-query-event"
		return
	}
	s.Group = q.Group
	s.Inbox = fmt.Sprintf("_INBOX.peer.%d", op.ID)
	s.Args0 = q.ID
	payload := []byte(fmt.Sprintf(`{"query":"id=%d"}`, op.ID))
	switch op.Payload {
	case "<empty>":
		payload = nil
	case "":
	default:
		payload = []byte(op.Payload)
	}
	e.Mon.Inboxes[s.Inbox] = simconn.InboxInfo{Query: true}
	s.Invoke = e.H.Rec("qreq.send", q.Group, op.ID, q.RName)
	ds := e.Conn.Inject(q.Subject, s.Inbox, payload)
	s.Routed = len(ds)
	for _, d := range ds {
		d.ID = op.ID
	}
	if len(ds) == 0 {
		s.Dropped = "not-routed"
	}
}

// TimeActions offers time advances while query events are pending.
func (e *Engine) TimeActions() []sched.Action {
	e.H.mu.Lock()
	var next time.Duration = -1
	now := time.Now()
	dur := time.Duration(e.Case.QueryMs) * time.Millisecond
	if dur == 0 {
		dur = 3 * time.Second
	}
	for _, q := range e.QEs {
		if q.Subject == "" || len(q.NilCalls) > 0 || q.Expired {
			continue
		}
		d := q.Start.Add(dur).Sub(now)
		if d < 0 {
			// the duration counts from the moment the library registered the
			// query event, which is later than the call: the deadline is at
			// most one duration away
			d = dur
		}
		if next < 0 || d < next {
			next = d
		}
	}
	e.H.mu.Unlock()
	if next < 0 {
		return nil
	}
	// time alone has been passing for a long while (sixty advances in a row,
	// at least fifteen query durations) and nothing came of it: whatever the
	// pending query event is waiting for does not come with time - a last
	// call refused by a stopped service, say. No more time is offered; what
	// became of the event is for the oracles to judge.
	if step := e.Sim.Step(); e.timeActs > 0 && step == e.lastTimeStep {
		if e.timeActs >= 60 {
			return nil
		}
	} else {
		e.timeActs = 0
	}
	acts := []sched.Action{}
	if next > time.Millisecond {
		acts = append(acts, sched.Action{Label: "time+small", Do: func() { e.timeActs++; e.lastTimeStep = e.Sim.Step(); e.Sleep(next / 4) }})
	}
	acts = append(acts, sched.Action{Label: "time+expire", Do: func() { e.timeActs++; e.lastTimeStep = e.Sim.Step(); e.Sleep(next) }})
	return acts
}

// Sleep advances simulated time (scheduler goroutine only).
func (e *Engine) Sleep(d time.Duration) {
	if d <= 0 {
		d = time.Millisecond
	}
	e.timeSlept += d
	time.Sleep(d)
}

// HookObserver emulates the server-side effect of Subscription.Drain for
// tier A: the zero-value subscription returned by SimConn cannot tell the
// connection it was drained, so the point directly after the Drain call marks
// the subscription inactive.
func (e *Engine) HookObserver(point, arg string) {
	if point != "queryEventExpire.afterDrain" {
		return
	}
	// the expiring query event is the oldest not yet expired one
	e.H.mu.Lock()
	var q *QEInfo
	subject := arg
	if i := strings.IndexByte(arg, ' '); i >= 0 {
		subject = arg[i+1:]
	}
	for _, c := range e.QEs {
		if !c.Expired && c.Subject != "" && c.Subject == subject {
			q = c
			break
		}
	}
	if q == nil && subject != "" {
		// a query event may expire before the call that started it has
		// returned (its starter parked inside QueryEvent while a second
		// passes): the harness has not read its subject from the announced
		// event yet, so it is found by its resource
		rname := strings.TrimSuffix(arg, " "+subject)
		for _, c := range e.QEs {
			if !c.Expired && c.Subject == "" && !c.SubFailed && c.RName == rname {
				q = c
				break
			}
		}
	}
	if q != nil {
		q.Expired = true
	}
	e.H.mu.Unlock()
	if subject != "" {
		// (by the subject of the hook, whether or not the event was found)
		e.Conn.Drain(subject)
	}
	if q != nil {
		e.H.Rec("qe.drain", q.Group, q.ID, "")
	}
}
