package scen

import (
	"encoding/json"
	"fmt"
	"math/rand/v2"
	"strings"
	"sync"
	"sync/atomic"
	"testing/synctest"
	"time"

	res "github.com/jirenius/go-res"
	"github.com/jirenius/go-res/resprot"
	nats "github.com/nats-io/nats.go"

	"verif/sim/natsim"
	"verif/sim/sched"
	"verif/sim/simconn"
)

// TBCall is one scripted SendRequest call of the tier B sendreq mode.
type TBCall struct {
	Subject   string `json:"subject"`
	TimeoutMs int    `json:"timeout_ms"`
	// handler behaviour
	PreMs   []int  `json:"pre_ms,omitempty"`   // timeout pre-responses, each followed by a sleep of SleepMs
	SleepMs int    `json:"sleep_ms,omitempty"` // handler sleep after each pre-response / before the reply
	Reply   string `json:"reply"`              // ok | err | none
	// Req selects the request value: "" none, "big" larger than the server's
	// maximum payload (the publish fails), "bad" not marshalable.
	Req string `json:"req,omitempty"`
}

// TBCase is a case of the tier B scenario.
type TBCase struct {
	Mode       string       `json:"mode"` // reconnect | queryrelease | sendreq
	SvcName    string       `json:"svc_name"`
	Owned      *[2][]string `json:"owned,omitempty"`
	QueueGroup *string      `json:"queue_group,omitempty"`
	Kinds      int          `json:"kinds"`
	Reconnects int          `json:"reconnects"`
	NQE        int          `json:"nqe"`
	QueryMs    int          `json:"query_ms"`
	NQReq      int          `json:"nqreq"`
	Calls      []TBCall     `json:"calls,omitempty"`
	// Listen: the service connects by itself (ListenAndServe) instead of
	// being handed a connection
	Listen bool `json:"listen,omitempty"`
	// Outage (queryrelease): one more query event expires while the service
	// is cut off from the broker, which comes back afterwards
	Outage bool `json:"outage,omitempty"`
}

// TierBScenario runs the real nats.go client over net.Pipe against the
// broker stub (C09 reconnect, C15 release, C19 unsubscribe).
type TierBScenario struct{}

func (TierBScenario) Name() string { return "tierb" }

func (TierBScenario) GenCase(r *rand.Rand, prop string) interface{} {
	c := &TBCase{}
	switch prop {
	case "C09":
		c.Mode = "reconnect"
		c.Listen = chance(r, 40)
	case "C15":
		c.Mode = "queryrelease"
	case "C19":
		c.Mode = "sendreq"
	default:
		c.Mode = pick(r, "reconnect", "queryrelease", "sendreq")
	}
	switch c.Mode {
	case "reconnect":
		sc := SubsScenario{}.GenCase(r, prop).(*SvcCase)
		c.SvcName, c.Owned, c.QueueGroup = sc.SvcName, sc.Owned, sc.QueueGroup
		c.Kinds = r.IntN(4)
		c.Reconnects = 1 + r.IntN(2)
	case "queryrelease":
		c.SvcName = "test"
		c.NQE = 1 + r.IntN(6)
		c.QueryMs = pick(r, 50, 1000, 3000)
		c.NQReq = r.IntN(4)
		c.Outage = chance(r, 40)
	case "sendreq":
		c.SvcName = "test"
		for i, n := 0, 1+r.IntN(4); i < n; i++ {
			call := TBCall{Subject: pick(r, "call.test.model.1.slow", "call.test.model.1.slow", "call.test.model.1.unknown", "call.nobody.home.x"), TimeoutMs: pick(r, 105, 505, 1005), Reply: pick(r, "ok", "ok", "err", "none")}
			for k, np := 0, r.IntN(3); k < np; k++ {
				call.PreMs = append(call.PreMs, pick(r, 205, 1005, 3005))
			}
			call.SleepMs = pick(r, 0, 50, 100, 400, 900)
			call.Req = pick(r, "", "", "", "", "", "big", "bad")
			c.Calls = append(c.Calls, call)
		}
	}
	return c
}

func (TierBScenario) DecodeCase(raw json.RawMessage) (interface{}, error) {
	c := &TBCase{}
	err := json.Unmarshal(raw, c)
	return c, err
}

func (TierBScenario) Shrinks(ci interface{}) []interface{} { return nil }

func settle(d time.Duration) {
	synctest.Wait()
	if d > 0 {
		time.Sleep(d)
		synctest.Wait()
	}
}

func tbConnect(b *natsim.Broker, name string, opts ...nats.Option) (*nats.Conn, error) {
	o := append([]nats.Option{nats.SetCustomDialer(b), nats.ReconnectWait(50 * time.Millisecond), nats.MaxReconnects(-1), nats.Timeout(2 * time.Second), nats.Name(name), nats.PingInterval(30 * time.Second)}, opts...)
	return nats.Connect("nats://127.0.0.1:4222", o...)
}

func (TierBScenario) Execute(sim *sched.Sim, ci interface{}, prop string, race bool) *Outcome {
	c := ci.(*TBCase)
	h := NewHist(sim)
	cb, _ := json.Marshal(c)
	sim.Note("case:" + string(cb))
	out := &Outcome{Faults: map[string]int{}}
	b := natsim.New()
	switch c.Mode {
	case "reconnect":
		tbReconnect(c, b, h, out)
	case "queryrelease":
		tbQueryRelease(c, b, h, out)
	case "sendreq":
		tbSendReq(c, b, h, out)
	}
	out.Evals += h.Evals
	out.Sample = c
	for _, v := range h.Viol {
		if prop == "" || v.Property == prop {
			out.Violations = append(out.Violations, v)
		}
	}
	return out
}

func resets(b *natsim.Broker) [][]byte {
	var out [][]byte
	for _, l := range b.LogSnapshot() {
		if l.Op == "PUB" && l.Subject == "system.reset" {
			out = append(out, l.Data)
		}
	}
	return out
}

// ---- C09: reconnect ---------------------------------------------------------

func tbReconnect(c *TBCase, b *natsim.Broker, h *Hist, out *Outcome) {
	sc := &SvcCase{SvcName: c.SvcName, Owned: c.Owned, QueueGroup: c.QueueGroup}
	mk := func(pattern string, typ int) PatSpec {
		p := PatSpec{Pattern: pattern, Type: typ}
		if c.Kinds != 2 {
			p.Get = true
		}
		if c.Kinds != 1 {
			p.Access = true
		}
		return p
	}
	sc.Pats = []PatSpec{mk("m.$id", 1), mk("c", 2)}
	svc := res.NewService(c.SvcName)
	svc.SetLogger(nil)
	if c.Owned != nil {
		svc.SetOwnedResources(c.Owned[0], c.Owned[1])
	}
	if c.QueueGroup != nil {
		svc.SetQueueGroup(*c.QueueGroup)
	}
	for _, p := range sc.Pats {
		var opts []res.Option
		if p.Get {
			if p.Type == 2 {
				opts = append(opts, res.GetCollection(func(r res.CollectionRequest) { r.Collection([]int{}) }))
			} else {
				opts = append(opts, res.GetModel(func(r res.ModelRequest) { r.Model(map[string]int{}) }))
			}
		} else if p.Type == 2 {
			opts = append(opts, res.Collection)
		} else {
			opts = append(opts, res.Model)
		}
		if p.Access {
			opts = append(opts, res.Access(res.AccessGranted))
		}
		svc.Handle(p.Pattern, opts...)
	}
	var nc *nats.Conn
	done := make(chan error, 1)
	if c.Listen {
		out.Faults["listen-and-serve"]++
		go func() {
			done <- svc.ListenAndServe("nats://127.0.0.1:4222", nats.SetCustomDialer(b), nats.ReconnectWait(50*time.Millisecond), nats.Timeout(2*time.Second), nats.PingInterval(30*time.Second))
		}()
	} else {
		var err error
		nc, err = tbConnect(b, "service")
		if err != nil {
			h.Violate("C09", "tierb-connect", "", err.Error())
			return
		}
		go func() { done <- svc.Serve(nc) }()
	}
	stop := func() {
		if nc != nil {
			nc.Close()
		} else {
			go svc.Shutdown()
		}
	}
	settle(10 * time.Millisecond)
	resources, access := ownedModel(sc)
	resSet, accSet := setOf(resources), setOf(access)
	if len(resSet) == 0 && len(accSet) == 0 {
		settle(time.Second)
		if n := len(resets(b)); n != 0 {
			h.Violate("C09", "reset-without-ownership", "tierb", fmt.Sprintf("%d resets", n))
		}
		stop()
		settle(time.Second)
		return
	}
	checkReset := func(data []byte, when string) {
		var ev struct {
			Resources []string `json:"resources"`
			Access    []string `json:"access"`
		}
		json.Unmarshal(data, &ev)
		h.Evals++
		if fmt.Sprint(setOf(ev.Resources)) != fmt.Sprint(resSet) || fmt.Sprint(setOf(ev.Access)) != fmt.Sprint(accSet) {
			h.Violate("C09", "reset-content", "tierb", fmt.Sprintf("%s: system.reset announced resources=%v access=%v, expected %v %v", when, ev.Resources, ev.Access, resSet, accSet))
		}
	}
	rs := resets(b)
	if len(rs) != 1 {
		h.Violate("C09", "reset-count", "start", fmt.Sprintf("service %q owned=%v: %d system.reset after start over a real nats.Conn, expected 1", c.SvcName, c.Owned, len(rs)))
		stop()
		settle(time.Second)
		return
	}
	checkReset(rs[0], "on start")
	live := b.LiveClients()
	subsBefore := b.Subscriptions(live[len(live)-1])
	for _, s := range subsBefore {
		h.Evals++
		if !simconn.ValidSubscribeSubject(s) {
			h.Violate("C09", "invalid-subscription-subject", "tierb", s)
		}
	}
	probe := func(id int, when string) {
		for _, n := range probeNames(append(append([]string{}, resSet...), accSet...), c.SvcName) {
			ro, ao := 0, 0
			for _, p := range resSet {
				if nameUnder(p, n) {
					ro++
				}
			}
			for _, p := range accSet {
				if nameUnder(p, n) {
					ao++
				}
			}
			for _, pr := range []struct {
				s string
				o int
			}{{"get." + n, ro}, {"call." + n + ".set", ro}, {"auth." + n + ".login", ro}, {"access." + n, ao}} {
				h.Evals++
				cnt := b.Route(id, pr.s)
				if pr.o >= 1 && cnt == 0 {
					h.Violate("C09", "owned-subject-not-subscribed", "tierb", fmt.Sprintf("%s: %s lies under %d owned pattern(s) but the broker has no matching subscription of the service: %v", when, pr.s, pr.o, b.Subscriptions(id)))
				}
				if pr.o == 1 && cnt > 1 {
					var matching []string
					for _, sub := range b.Subscriptions(id) {
						if simconn.SubjectMatches(sub, pr.s) {
							matching = append(matching, sub)
						}
					}
					sig := redundancySignature(pr.s, resSet, matching)
					if sig == "" {
						sig = "tierb"
					}
					h.Violate("C09", "redundant-subscription", sig, fmt.Sprintf("%s: %s is delivered %d times: %v", when, pr.s, cnt, b.Subscriptions(id)))
				}
			}
		}
	}
	probe(live[len(live)-1], "after start")
	for k := 0; k < c.Reconnects; k++ {
		out.Faults["disconnect"]++
		live = b.LiveClients()
		b.Disconnect(live[len(live)-1])
		settle(2 * time.Second)
		rs = resets(b)
		h.Evals++
		if len(rs) != 2+k {
			h.Violate("C09", "reset-count", "reconnect", fmt.Sprintf("service %q: %d system.reset after %d reconnect(s), expected %d", c.SvcName, len(rs), k+1, 2+k))
			break
		}
		checkReset(rs[len(rs)-1], "after reconnect")
		live = b.LiveClients()
		if len(live) == 0 {
			h.Violate("C09", "no-reconnect", "", "service connection did not come back")
			break
		}
		subsAfter := b.Subscriptions(live[len(live)-1])
		if strings.Join(subsAfter, ",") != strings.Join(subsBefore, ",") {
			h.Violate("C09", "subscriptions-after-reconnect", "", fmt.Sprintf("before %v after %v", subsBefore, subsAfter))
		}
		probe(live[len(live)-1], "after reconnect")
	}
	tbShutdown(svc, nc, h)
	settle(time.Second)
	select {
	case <-done:
	default:
		h.Violate("C03", "shutdown-hang", "tierb", "Serve did not return after Shutdown on a real connection")
	}
}

// ---- C15: release of the query subscription -----------------------------------

func tbQueryRelease(c *TBCase, b *natsim.Broker, h *Hist, out *Outcome) {
	svc := res.NewService("test")
	svc.SetLogger(nil)
	svc.SetQueryEventDuration(time.Duration(c.QueryMs) * time.Millisecond)
	nilCalls := 0
	calls := 0
	svc.Handle("model.$id",
		res.GetModel(func(r res.ModelRequest) { r.Model(map[string]int{"a": 1}) }),
		res.Call("query", func(r res.CallRequest) {
			r.QueryEvent(func(qr res.QueryRequest) {
				if qr == nil {
					nilCalls++
					return
				}
				calls++
				qr.Model(map[string]int{"q": calls})
			})
			r.OK(nil)
		}))
	nc, err := tbConnect(b, "service")
	if err != nil {
		h.Violate("C15", "tierb-connect", "", err.Error())
		return
	}
	done := make(chan error, 1)
	go func() { done <- svc.Serve(nc) }()
	settle(10 * time.Millisecond)
	svcID := b.LiveClients()[0]
	base := b.Subscriptions(svcID)
	peer, err := tbConnect(b, "peer")
	if err != nil {
		h.Violate("C15", "tierb-connect", "", err.Error())
		return
	}
	evCh := make(chan *nats.Msg, 64)
	peer.ChanSubscribe("event.>", evCh)
	respCh := make(chan *nats.Msg, 256)
	peer.ChanSubscribe("_REPLY.>", respCh)
	settle(10 * time.Millisecond)
	// the service is up and idle: whatever goroutines the library starts
	// from here on belong to the query events
	leakBase := libraryGoroutines()
	clientSubs := nc.NumSubscriptions()
	responses := 0
	sent := 0
	for k := 0; k < c.NQE; k++ {
		peer.PublishRequest("call.test.model.1.query", fmt.Sprintf("_REPLY.call.%d", k), []byte(`{}`))
		settle(5 * time.Millisecond)
		var qsubj string
		for len(evCh) > 0 {
			m := <-evCh
			if strings.HasSuffix(m.Subject, ".query") {
				var ev struct {
					Subject string `json:"subject"`
				}
				json.Unmarshal(m.Data, &ev)
				qsubj = ev.Subject
			}
		}
		if qsubj == "" {
			h.Violate("C15", "query-event-not-announced", "tierb", "no query event seen by the peer")
			continue
		}
		for i := 0; i < c.NQReq; i++ {
			sent++
			peer.PublishRequest(qsubj, fmt.Sprintf("_REPLY.q.%d.%d", k, i), []byte(`{"query":"a=1"}`))
		}
		settle(5 * time.Millisecond)
		// half of the events overlap in time, half expire before the next starts
		if k%2 == 1 {
			settle(time.Duration(c.QueryMs)*time.Millisecond + 100*time.Millisecond)
		}
	}
	settle(time.Duration(c.QueryMs)*time.Millisecond + time.Second)
	for len(respCh) > 0 {
		m := <-respCh
		if strings.HasPrefix(m.Subject, "_REPLY.q.") {
			responses++
		}
	}
	h.Evals += 3
	if responses != sent {
		h.Violate("C15", "query-response-count", "tierb", fmt.Sprintf("%d query requests sent while the events were active, %d responses", sent, responses))
	}
	if nilCalls != c.NQE {
		h.Violate("C15", "nil-call-count", "tierb", fmt.Sprintf("%d query events, callback called with nil %d times", c.NQE, nilCalls))
	}
	after := b.Subscriptions(svcID)
	if strings.Join(after, ",") != strings.Join(base, ",") {
		h.Violate("C15", "subscription-not-released", "", fmt.Sprintf("after %d query events expired the broker still holds subscriptions of the service beyond its own: before %v, after %v", c.NQE, base, after))
	}
	if n := libraryGoroutines() - leakBase; n > 0 {
		h.Violate("C15", "leak", "(*queryEvent).startQueryListener", fmt.Sprintf("%d query listener goroutine(s) remain after %d query events expired (real nats.Conn)", n, c.NQE))
	}
	if c.Outage {
		// a query event that expires while the connection is lost: the
		// client keeps its subscriptions and sends them again when it is
		// back, so what the expiry does not release locally is subscribed
		// again at the broker (seeded change C15y)
		out.Faults["disconnect"]++
		peer.PublishRequest("call.test.model.1.query", "_REPLY.call.outage", []byte(`{}`))
		settle(5 * time.Millisecond)
		known := map[int]bool{}
		for _, id := range b.LiveClients() {
			known[id] = true
		}
		b.RefuseDial = true
		b.Disconnect(svcID)
		settle(time.Duration(c.QueryMs)*time.Millisecond + time.Second)
		b.RefuseDial = false
		settle(3 * time.Second)
		h.Evals += 2
		if nilCalls != c.NQE+1 {
			h.Violate("C15", "nil-call-count", "outage", fmt.Sprintf("a query event expired during an outage: callback called with nil %d times for %d query events", nilCalls, c.NQE+1))
		}
		live := b.LiveClients()
		back := -1
		for _, id := range live {
			if !known[id] && id > back {
				back = id // a connection made after the outage began: the service's
			}
		}
		// What is compared is the client's own table of subscriptions. (At
		// the broker the subscription of such a query event does come back:
		// nats.go v1.10.0 writes no UNSUB for a subscription drained while
		// it is reconnecting and sends every subscription it still knows
		// again when it is back, the draining one included, before it
		// forgets it. That is the client library's doing, with nothing
		// go-res could release; noted in DESIGN.md as an observation.)
		if back < 0 || back == svcID {
			h.Violate("C15", "no-reconnect", "outage", "the service connection did not come back after the outage")
		} else if got := nc.NumSubscriptions(); got != clientSubs {
			h.Violate("C15", "subscription-not-released", "after-outage", fmt.Sprintf("a query event expired while the connection was lost; after the reconnect the service's connection has %d subscriptions, %d before the query events (broker: %v)", got, clientSubs, b.Subscriptions(back)))
		}
	}
	tbShutdown(svc, nc, h)
	settle(time.Second)
	peer.Close()
	settle(time.Second)
	select {
	case <-done:
	default:
		h.Violate("C03", "shutdown-hang", "tierb", "Serve did not return")
	}
}

// ---- C19: SendRequest over a real connection ------------------------------------

func tbSendReq(c *TBCase, b *natsim.Broker, h *Hist, out *Outcome) {
	svc := res.NewService("test")
	svc.SetLogger(nil)
	var cur *TBCall
	svc.Handle("model.$id",
		res.GetModel(func(r res.ModelRequest) { r.Model(map[string]int{"a": 1}) }),
		res.Call("slow", func(r res.CallRequest) {
			call := cur
			for _, ms := range call.PreMs {
				r.Timeout(time.Duration(ms) * time.Millisecond)
				time.Sleep(time.Duration(call.SleepMs) * time.Millisecond)
			}
			time.Sleep(time.Duration(call.SleepMs) * time.Millisecond)
			switch call.Reply {
			case "ok":
				r.OK(map[string]int{"n": 1})
			case "err":
				r.Error(&res.Error{Code: "test.err", Message: "E"})
			case "none":
				// keep the request unanswered: block past every deadline
				time.Sleep(time.Hour)
				r.OK(nil)
			}
		}))
	b.MaxPayload = 4096
	nc, err := tbConnect(b, "service")
	if err != nil {
		h.Violate("C19", "tierb-connect", "", err.Error())
		return
	}
	done := make(chan error, 1)
	go func() { done <- svc.Serve(nc) }()
	settle(10 * time.Millisecond)
	// nats.go reports a message it had to drop because the subscription's
	// channel was full through the asynchronous error handler
	var drops atomic.Int32
	peer, err := tbConnect(b, "peer", nats.ErrorHandler(func(_ *nats.Conn, _ *nats.Subscription, err error) {
		if err == nats.ErrSlowConsumer {
			drops.Add(1)
		}
	}))
	if err != nil {
		h.Violate("C19", "tierb-connect", "", err.Error())
		return
	}
	settle(10 * time.Millisecond)
	for i := range c.Calls {
		call := &c.Calls[i]
		cur = call
		drops0 := drops.Load()
		var got resprot.Response
		var took time.Duration
		var extMu sync.Mutex
		var extGot, extAtReturn []time.Duration
		fin := make(chan struct{})
		start := time.Now()
		go func() {
			var req interface{}
			switch call.Req {
			case "big":
				req = map[string]string{"params": strings.Repeat("x", 6000)}
			case "bad":
				req = map[string]interface{}{"params": make(chan int)}
			}
			got = resprot.SendRequest(peer, call.Subject, req, time.Duration(call.TimeoutMs)*time.Millisecond, func(d time.Duration) {
				extMu.Lock()
				extGot = append(extGot, d)
				extMu.Unlock()
			})
			took = time.Since(start)
			// what the extension callback has been told by the time the
			// call returns
			extMu.Lock()
			extAtReturn = append([]time.Duration(nil), extGot...)
			extMu.Unlock()
			close(fin)
		}()
		returned := false
		for k := 0; k < 400 && !returned; k++ {
			settle(50 * time.Millisecond)
			select {
			case <-fin:
				returned = true
			default:
			}
		}
		h.Evals++
		if !returned {
			h.Violate("C19", "no-return", "tierb", fmt.Sprintf("SendRequest(%+v) did not return within 20 simulated seconds", *call))
			break
		}
		// timed model
		var wantExt []time.Duration
		want := "system.timeout"
		var at time.Duration
		sleep := time.Duration(call.SleepMs) * time.Millisecond
		switch {
		case call.Req != "":
			// marshal and publish failures are reported as internal errors
			// without waiting
			want, at = "system.internalError", 0
			out.Faults["tierb-"+call.Req+"-request"]++
		case call.Subject == "call.nobody.home.x":
			at = time.Duration(call.TimeoutMs) * time.Millisecond
		case call.Subject == "call.test.model.1.unknown":
			want, at = "system.methodNotFound", 0
		default:
			deadline := time.Duration(call.TimeoutMs) * time.Millisecond
			now := time.Duration(0)
			timedOut := false
			for _, ms := range call.PreMs {
				if now > deadline {
					timedOut = true
					break
				}
				deadline = now + time.Duration(ms)*time.Millisecond
				wantExt = append(wantExt, time.Duration(ms)*time.Millisecond)
				now += sleep
			}
			now += sleep
			if timedOut || now > deadline || call.Reply == "none" {
				at = deadline
			} else {
				at = now
				want = map[string]string{"ok": "", "err": "test.err"}[call.Reply]
			}
		}
		gotCode := ""
		if got.Error != nil {
			gotCode = got.Error.Code
		}
		if (gotCode != want || took != at) && drops.Load() != drops0 {
			// which goroutine of nats.go runs first is not decided by the
			// simulator in this tier: when the reader delivered two inbox
			// messages before the requester took the first, the second was
			// dropped (the same loss tier A reaches by schedule)
			out.Faults["tierb-inbox-drop"]++
			h.Violate("C19", "inbox-message-lost", "channel-full", fmt.Sprintf("SendRequest(%+v) over real connections returned code %q after %v, the timed model expects %q after %v; nats.go reported a dropped message on the requester's connection", *call, gotCode, took, want, at))
		} else if gotCode != want || took != at {
			h.Violate("C19", "wrong-response", "tierb", fmt.Sprintf("SendRequest(%+v) over real connections returned code %q after %v, the timed model expects %q after %v", *call, gotCode, took, want, at))
		}
		if gotCode == want && took == at && drops.Load() == drops0 && call.Req == "" && fmt.Sprint(extAtReturn) != fmt.Sprint(wantExt) {
			h.Violate("C19", "extension-callbacks", "tierb", fmt.Sprintf("SendRequest(%+v) over real connections returned as expected, but its extension callback had been told %v by then, expected %v", *call, extAtReturn, wantExt))
		}
		if call.Reply == "none" || want == "system.timeout" {
			// let the handler of this call finish before the next one
			settle(2 * time.Hour)
		}
	}
	settle(time.Second)
	// every inbox subscription of the requester was released
	h.Evals += 2
	if n := peer.NumSubscriptions(); n != 0 {
		h.Violate("C19", "subscription-not-released", "client", fmt.Sprintf("%d subscriptions remain on the requester's connection after %d SendRequest calls", n, len(c.Calls)))
	}
	peerID := 0
	for _, id := range b.LiveClients() {
		peerID = id
	}
	if left := b.Subscriptions(peerID); len(left) != 0 {
		h.Violate("C19", "subscription-not-released", "broker", fmt.Sprintf("the broker still holds %v for the requester after %d SendRequest calls", left, len(c.Calls)))
	}
	tbShutdown(svc, nc, h)
	settle(time.Second)
	peer.Close()
	settle(time.Second)
}

// tbShutdown calls Shutdown on its own goroutine (the caller settles and
// checks that Serve returned) and looks at the connection at the instant
// Shutdown returns: it must be closed by then.
func tbShutdown(svc *res.Service, nc *nats.Conn, h *Hist) {
	go func() {
		if err := svc.Shutdown(); err != nil {
			return
		}
		if nc == nil {
			return
		}
		h.Evals++
		if !nc.IsClosed() {
			h.Violate("C03", "connection-open-after-shutdown", "tierb", fmt.Sprintf("Shutdown returned while the real connection was not closed yet (status %d)", nc.Status()))
		}
	}()
}

func init() { register(TierBScenario{}) }
