package scen

import (
	"fmt"
	"runtime"
	"sync"

	"verif/sim/sched"
)

// Violation is what an oracle reports.
type Violation struct {
	Property  string `json:"property"`
	Class     string `json:"class"`
	Signature string `json:"signature"`
	Step      uint64 `json:"step"`
	Detail    string `json:"detail"`
}

func (v *Violation) Key() string { return v.Property + "|" + v.Class + "|" + v.Signature }

// Rec is one history record.
type Rec struct {
	Seq   uint64 `json:"seq"`
	Step  uint64 `json:"step"`
	Kind  string `json:"kind"`
	Task  string `json:"task,omitempty"`
	Group string `json:"group,omitempty"`
	Sub   int    `json:"sub,omitempty"`
	Epoch int    `json:"epoch,omitempty"`
	Extra string `json:"extra,omitempty"`
}

// Hist is the recorded history of one run plus the online oracles' state.
// All methods may be called from any task; in race builds the bookkeeping is
// hidden from the race detector and kept free of maps.
type Hist struct {
	Sim    *sched.Sim
	Off    bool // race variant: record nothing
	mu     sync.Mutex
	Recs   []Rec
	Viol   []*Violation
	occ    []occEntry
	MaxOcc int // max occupancy seen for parallel handlers
	Evals  int // oracle evaluations
	epoch  int
}

type occEntry struct {
	group string
	n     int
	sub   int
	kind  string // kind of the callback that entered last
}

func NewHist(sim *sched.Sim) *Hist {
	return &Hist{Sim: sim, Recs: make([]Rec, 0, 1<<13), occ: make([]occEntry, 0, 64)}
}

func (h *Hist) taskName() string {
	if t := h.Sim.Current(); t != nil {
		return t.Name
	}
	return "?"
}

// Rec appends a record and returns its sequence number.
func (h *Hist) Rec(kind, group string, sub int, extra string) uint64 {
	if h.Off {
		return 0
	}
	task := h.taskName()
	h.mu.Lock()
	seq := h.Sim.Seq()
	h.Recs = append(h.Recs, Rec{Seq: seq, Step: h.Sim.Step(), Kind: kind, Task: task, Group: group, Sub: sub, Epoch: h.epoch, Extra: extra})
	h.mu.Unlock()
	return seq
}

// Violate records a violation.
func (h *Hist) Violate(prop, class, sig, detail string) {
	h.mu.Lock()
	h.Viol = append(h.Viol, &Violation{Property: prop, Class: class, Signature: sig, Step: h.Sim.Step(), Detail: detail})
	h.mu.Unlock()
}

// Enter marks the start of a callback of the group and checks C01.
func (h *Hist) Enter(group string, sub int, kind string) {
	if h.Off {
		return
	}
	h.Rec("cb.enter", group, sub, kind)
	h.mu.Lock()
	h.Evals++
	found := false
	for i := range h.occ {
		if h.occ[i].group == group {
			found = true
			if h.occ[i].n > 0 && group != "" {
				h.Viol = append(h.Viol, &Violation{Property: "C01", Class: "group-overlap", Signature: "",
					Step: h.Sim.Step(), Detail: fmt.Sprintf("callback %d (%s) of group %q started while callback %d of the same group is executing", sub, kind, group, h.occ[i].sub)})
				if ok := h.occ[i].kind; kind == "qreq" || kind == "qexpire" || ok == "qreq" || ok == "qexpire" {
					// the callback of a query event is one of the group's
					h.Viol = append(h.Viol, &Violation{Property: "C15", Class: "callback-not-serialized", Signature: "",
						Step: h.Sim.Step(), Detail: fmt.Sprintf("query event callback %d (%s) of group %q started while callback %d of the same group is executing", sub, kind, group, h.occ[i].sub)})
				}
				if h.epoch > 0 {
					h.Viol = append(h.Viol, &Violation{Property: "C03", Class: "guarantee-lost-after-restart", Signature: "group-overlap",
						Step: h.Sim.Step(), Detail: fmt.Sprintf("epoch %d (after a Shutdown/Serve cycle): callback %d (%s) of group %q started while callback %d of the same group is executing", h.epoch, sub, kind, group, h.occ[i].sub)})
				}
			}
			h.occ[i].n++
			h.occ[i].sub = sub
			h.occ[i].kind = kind
			if group == "" && h.occ[i].n > h.MaxOcc {
				h.MaxOcc = h.occ[i].n
			}
		}
	}
	if !found {
		h.occ = append(h.occ, occEntry{group: group, n: 1, sub: sub, kind: kind})
		if group == "" && h.MaxOcc < 1 {
			h.MaxOcc = 1
		}
	}
	h.mu.Unlock()
}

// Exit marks the end of a callback.
func (h *Hist) Exit(group string, sub int, kind string) {
	if h.Off {
		return
	}
	h.Rec("cb.exit", group, sub, kind)
	h.mu.Lock()
	for i := range h.occ {
		if h.occ[i].group == group {
			h.occ[i].n--
		}
	}
	h.mu.Unlock()
}

// Executing returns the number of callbacks between enter and exit.
func (h *Hist) Executing() int {
	h.mu.Lock()
	defer h.mu.Unlock()
	n := 0
	for i := range h.occ {
		n += h.occ[i].n
	}
	return n
}

// SetEpoch sets the epoch stamped on subsequent records.
func (h *Hist) SetEpoch(e int) {
	h.mu.Lock()
	h.epoch = e
	h.mu.Unlock()
}

// libraryGoroutines counts the goroutines that were started by a go statement
// of the go-res root package (listener, workers, query event listeners,
// whatever they are called in the tree under test): once a service has been
// shut down and its query events have expired, none of them may be left.
func libraryGoroutines() int {
	return stacksContaining("created by github.com/jirenius/go-res.")
}

// stacksContaining counts goroutines whose stack contains the substring.
func stacksContaining(sub string) int {
	buf := make([]byte, 1<<20)
	n := runtime.Stack(buf, true)
	buf = buf[:n]
	count := 0
	// split by blank line
	start := 0
	for i := 0; i+1 < len(buf); i++ {
		if buf[i] == '\n' && buf[i+1] == '\n' {
			if containsBytes(buf[start:i], sub) {
				count++
			}
			start = i + 2
		}
	}
	if containsBytes(buf[start:], sub) {
		count++
	}
	return count
}

func containsBytes(b []byte, sub string) bool {
	if len(sub) == 0 {
		return true
	}
	for i := 0; i+len(sub) <= len(b); i++ {
		if string(b[i:i+len(sub)]) == sub {
			return true
		}
	}
	return false
}
