package scen

import (
	"fmt"
	"strconv"
	"strings"

	res "github.com/jirenius/go-res"

	"verif/sim/sched"
	"verif/sim/simconn"
)

// miniSvc is a small harness around one res.Service on a SimConn, for
// scenarios that drive the run in rounds from the scheduler goroutine.
type miniSvc struct {
	sim      *sched.Sim
	h        *Hist
	svc      *res.Service
	conn     *simconn.Conn
	mon      *simconn.Monitor
	serve    *sched.Task
	serveErr error
	nextID   int
	steps    int
	filter   sched.Filter
	errLog   []string
}

type miniLogger struct{ m *miniSvc }

func (l miniLogger) Infof(format string, v ...interface{})  {}
func (l miniLogger) Tracef(format string, v ...interface{}) {}
func (l miniLogger) Errorf(format string, v ...interface{}) {
	l.m.h.mu.Lock()
	l.m.errLog = append(l.m.errLog, fmt.Sprintf(format, v...))
	l.m.h.mu.Unlock()
}

func newMiniSvc(sim *sched.Sim, h *Hist, name string, workers int) *miniSvc {
	m := &miniSvc{sim: sim, h: h, mon: simconn.NewMonitor()}
	m.svc = res.NewService(name)
	m.svc.SetLogger(miniLogger{m})
	m.svc.SetWorkerCount(workers)
	m.conn = simconn.New(sim)
	m.conn.OnPublish = func(p *simconn.PubRec) {
		if cls, detail := m.mon.Validate(p); cls != "" {
			h.Violate("C07", cls, "", detail)
		}
	}
	sim.AddProvider(func() []sched.Action {
		if m.conn.PendingInbound() == 0 {
			return nil
		}
		return []sched.Action{{Label: "deliver", Do: func() {
			if d := m.conn.DeliverHead(false); d != nil && strings.HasPrefix(d.Dropped, "panic: ") {
				h.Violate("C03", "panic", "delivery: "+strings.TrimPrefix(d.Dropped, "panic: "), "delivering a message to a subscription channel of the service panicked: "+d.Dropped)
			}
		}}}
	})
	return m
}

// start launches Serve and runs until the service is idle.
func (m *miniSvc) start() {
	m.serve = m.sim.Go("serve", func() {
		m.serveErr = m.svc.Serve(m.conn)
		m.sim.Yield("call.return", "serve")
	})
	m.quiesce()
}

// quiesce takes scheduler decisions until nothing is enabled.
func (m *miniSvc) quiesce() bool {
	// (the bound is a safety net against a harness that never comes to
	// rest, far above what a round needs: a round that moves a collection
	// of a thousand values publishes thousands of events, each with several
	// yield points - 20000 steps were not enough for those at the thorough
	// tier, and the round was then judged as if it had come to rest)
	for i := 0; i < 1000000; i++ {
		if !m.sim.Decide(m.filter) {
			return true
		}
		m.steps++
	}
	// never judge a round that has not come to rest: this is trouble of the
	// simulator (exit 2), not a verdict about the library
	panic("simulator: miniSvc.quiesce did not come to rest within 1000000 steps")
}

// request injects a request and returns its reply inbox.
func (m *miniSvc) request(subject string, payload []byte) string {
	m.nextID++
	inbox := "_INBOX.peer." + strconv.Itoa(m.nextID)
	m.mon.Inboxes[inbox] = simconn.InboxInfo{}
	m.conn.Inject(subject, inbox, payload)
	return inbox
}

// responses returns the non-pre-response payloads published on the inbox.
func (m *miniSvc) responses(inbox string) [][]byte {
	var out [][]byte
	for _, p := range m.conn.PubsSnapshot() {
		if p.Subject == inbox && !simconn.IsPreResponse(p.Data) {
			out = append(out, p.Data)
		}
	}
	return out
}

// shutdown stops the service and waits for Serve to return.
func (m *miniSvc) shutdown() bool {
	t := m.sim.Go("shutdown", func() {
		m.svc.Shutdown()
		m.sim.Yield("call.return", "shutdown")
	})
	m.quiesce()
	return t.IsDone() && m.serve.IsDone()
}

// stepBound ends a run whose driving loop does not come to rest: a bound
// that is reached is trouble of the simulator (the worker process dies with
// this message, exit 2), never a state to judge the library in.
func stepBound(i, n int, what string) {
	if i >= n {
		panic("simulator: " + what + " did not come to rest within " + strconv.Itoa(n) + " steps")
	}
}
