// Command autoyield rewrites a scratch copy of the go-res root package: before
// every statement that locks a mutex field named "mu" it inserts a simulation
// yield point, so that the simulator can also switch goroutines at lock
// granularity (for instance in a gap that a change opened between two
// critical sections). The rewritten copy is only ever compiled into the
// simulator; it is removed right after the build.
package main

import (
	"bytes"
	"fmt"
	"go/ast"
	"go/format"
	"go/parser"
	"go/token"
	"os"
	"path/filepath"
	"strings"
)

func isMuLock(stmt ast.Stmt) bool {
	es, ok := stmt.(*ast.ExprStmt)
	if !ok {
		return false
	}
	call, ok := es.X.(*ast.CallExpr)
	if !ok || len(call.Args) != 0 {
		return false
	}
	sel, ok := call.Fun.(*ast.SelectorExpr)
	if !ok || sel.Sel.Name != "Lock" {
		return false
	}
	switch x := sel.X.(type) {
	case *ast.SelectorExpr:
		return x.Sel.Name == "mu"
	case *ast.Ident:
		return x.Name == "mu"
	}
	return false
}

func rewriteList(fset *token.FileSet, file string, list []ast.Stmt, n *int) []ast.Stmt {
	var out []ast.Stmt
	for _, st := range list {
		if isMuLock(st) {
			pos := fset.Position(st.Pos())
			arg := fmt.Sprintf("%s:%d", file, pos.Line)
			out = append(out, &ast.ExprStmt{X: &ast.CallExpr{
				Fun:  ast.NewIdent("simYield"),
				Args: []ast.Expr{&ast.BasicLit{Kind: token.STRING, Value: `"auto.lock"`}, &ast.BasicLit{Kind: token.STRING, Value: fmt.Sprintf("%q", arg)}},
			}})
			*n++
		}
		out = append(out, st)
	}
	return out
}

func main() {
	dir := os.Args[1]
	matches, _ := filepath.Glob(filepath.Join(dir, "*.go"))
	total := 0
	for _, path := range matches {
		base := filepath.Base(path)
		if strings.HasSuffix(base, "_test.go") || strings.HasPrefix(base, "verif_") {
			continue
		}
		fset := token.NewFileSet()
		f, err := parser.ParseFile(fset, path, nil, parser.ParseComments)
		if err != nil {
			fmt.Fprintln(os.Stderr, "autoyield:", err)
			os.Exit(1)
		}
		n := 0
		ast.Inspect(f, func(node ast.Node) bool {
			switch b := node.(type) {
			case *ast.BlockStmt:
				b.List = rewriteList(fset, base, b.List, &n)
			case *ast.CaseClause:
				b.Body = rewriteList(fset, base, b.Body, &n)
			case *ast.CommClause:
				b.Body = rewriteList(fset, base, b.Body, &n)
			}
			return true
		})
		if n == 0 {
			continue
		}
		var buf bytes.Buffer
		if err := format.Node(&buf, fset, f); err != nil {
			fmt.Fprintln(os.Stderr, "autoyield:", err)
			os.Exit(1)
		}
		if err := os.WriteFile(path, buf.Bytes(), 0o644); err != nil {
			fmt.Fprintln(os.Stderr, "autoyield:", err)
			os.Exit(1)
		}
		total += n
	}
	fmt.Printf("autoyield: %d yield points inserted\n", total)
}
