// Command autoyield rewrites a scratch copy of the go-res root package: before
// every statement that locks a mutex field named "mu" it inserts a simulation
// yield point, so that the simulator can also switch goroutines at lock
// granularity (for instance in a gap that a change opened between two
// critical sections). With -badger it patches a scratch copy of the
// dgraph-io/badger module instead (see patchBadger). The rewritten copies are
// only ever compiled into the simulator; they are removed right after the
// build.
package main

import (
	"bytes"
	"fmt"
	"go/ast"
	"go/format"
	"go/parser"
	"go/token"
	"os"
	"path/filepath"
	"strings"
)

func isMuLock(stmt ast.Stmt) bool {
	es, ok := stmt.(*ast.ExprStmt)
	if !ok {
		return false
	}
	call, ok := es.X.(*ast.CallExpr)
	if !ok || len(call.Args) != 0 {
		return false
	}
	sel, ok := call.Fun.(*ast.SelectorExpr)
	if !ok || sel.Sel.Name != "Lock" {
		return false
	}
	switch x := sel.X.(type) {
	case *ast.SelectorExpr:
		return x.Sel.Name == "mu"
	case *ast.Ident:
		return x.Name == "mu"
	}
	return false
}

// lockCall recognises the statement X.Lock() or X.RLock() without arguments
// and returns X and the name of the matching try method.
func lockCall(stmt ast.Stmt) (ast.Expr, string, string) {
	es, ok := stmt.(*ast.ExprStmt)
	if !ok {
		return nil, "", ""
	}
	call, ok := es.X.(*ast.CallExpr)
	if !ok || len(call.Args) != 0 {
		return nil, "", ""
	}
	sel, ok := call.Fun.(*ast.SelectorExpr)
	if !ok {
		return nil, "", ""
	}
	switch sel.Sel.Name {
	case "Lock":
		return sel.X, "TryLock", "Lock"
	case "RLock":
		return sel.X, "TryRLock", "RLock"
	}
	return nil, "", ""
}

// spinRoot: in the root package a lock statement becomes
//
//	for !X.TryLock() { simYield("lock.spin", where) }
//
// so that a goroutine that has to wait for a mutex parks at a yield point
// (a durable block the scheduler sees) instead of inside sync.Mutex, which
// testing/synctest does not treat as durable: a library that holds a mutex
// across a yield point - correct, if unusual - can then still be simulated.
func spinRoot(x ast.Expr, try, where string) ast.Stmt {
	return &ast.ForStmt{
		Cond: &ast.UnaryExpr{Op: token.NOT, X: &ast.CallExpr{Fun: &ast.SelectorExpr{X: x, Sel: ast.NewIdent(try)}}},
		Body: &ast.BlockStmt{List: []ast.Stmt{&ast.ExprStmt{X: &ast.CallExpr{
			Fun:  ast.NewIdent("simYield"),
			Args: []ast.Expr{&ast.BasicLit{Kind: token.STRING, Value: `"lock.spin"`}, &ast.BasicLit{Kind: token.STRING, Value: fmt.Sprintf("%q", where)}},
		}}}},
	}
}

// spinSub: in the other packages of the module, which have no yield function
// of their own, the statement becomes verifkeylock.Spin(X.TryLock, X.Lock,
// where); Spin lives in the simulator's stand-in for jirenius/keylock.
func spinSub(x ast.Expr, try, lock, where string) ast.Stmt {
	return &ast.ExprStmt{X: &ast.CallExpr{
		Fun: &ast.SelectorExpr{X: ast.NewIdent("verifkeylock"), Sel: ast.NewIdent("Spin")},
		Args: []ast.Expr{&ast.SelectorExpr{X: x, Sel: ast.NewIdent(try)}, &ast.SelectorExpr{X: x, Sel: ast.NewIdent(lock)},
			&ast.BasicLit{Kind: token.STRING, Value: fmt.Sprintf("%q", where)}},
	}}
}

var subPackage bool // rewriting a package below the root

func rewriteList(fset *token.FileSet, file string, list []ast.Stmt, n *int) []ast.Stmt {
	var out []ast.Stmt
	for _, st := range list {
		if x, try, lock := lockCall(st); x != nil && subPackage {
			pos := fset.Position(st.Pos())
			out = append(out, spinSub(x, try, lock, fmt.Sprintf("%s:%d", file, pos.Line)))
			*n++
			continue
		}
		if x, try, _ := lockCall(st); x != nil && !isMuLock(st) {
			pos := fset.Position(st.Pos())
			out = append(out, spinRoot(x, try, fmt.Sprintf("%s:%d", file, pos.Line)))
			*n++
			continue
		}
		if isMuLock(st) {
			pos := fset.Position(st.Pos())
			arg := fmt.Sprintf("%s:%d", file, pos.Line)
			out = append(out, &ast.ExprStmt{X: &ast.CallExpr{
				Fun:  ast.NewIdent("simYield"),
				Args: []ast.Expr{&ast.BasicLit{Kind: token.STRING, Value: `"auto.lock"`}, &ast.BasicLit{Kind: token.STRING, Value: fmt.Sprintf("%q", arg)}},
			}})
			*n++
			x, try, _ := lockCall(st)
			out = append(out, spinRoot(x, try, arg))
			continue
		}
		out = append(out, st)
		if _, ok := st.(*ast.GoStmt); ok && !subPackage {
			// and a yield point right after every go statement: the
			// goroutine exists, its creator has not moved on
			pos := fset.Position(st.Pos())
			arg := fmt.Sprintf("%s:%d", file, pos.Line)
			out = append(out, &ast.ExprStmt{X: &ast.CallExpr{
				Fun:  ast.NewIdent("simYield"),
				Args: []ast.Expr{&ast.BasicLit{Kind: token.STRING, Value: `"auto.go"`}, &ast.BasicLit{Kind: token.STRING, Value: fmt.Sprintf("%q", arg)}},
			}})
			*n++
		}
	}
	return out
}

// patchBadger adds a yield point to a scratch copy of dgraph-io/badger:
// DB.Update calls the hook after the user's function has returned (its
// deferred calls have run) and before the transaction is committed.
func patchBadger(dir string) {
	path := filepath.Join(dir, "txn.go")
	src, err := os.ReadFile(path)
	if err != nil {
		fmt.Fprintln(os.Stderr, "autoyield:", err)
		os.Exit(1)
	}
	old := "\tif err := fn(txn); err != nil {\n\t\treturn err\n\t}\n\n\treturn txn.Commit()\n}"
	if strings.Count(string(src), old) != 1 {
		fmt.Fprintln(os.Stderr, "autoyield: DB.Update of badger does not have the expected shape")
		os.Exit(1)
	}
	patched := strings.Replace(string(src), old, "\tif err := fn(txn); err != nil {\n\t\treturn err\n\t}\n\tif h := VerifHook; h != nil {\n\t\th(\"badger.commit\", \"\")\n\t}\n\tif f := VerifCommitFault; f != nil {\n\t\tif err := f(); err != nil {\n\t\t\treturn err\n\t\t}\n\t}\n\n\treturn txn.Commit()\n}", 1)
	// and both View and Update yield before the transaction is created
	for _, fn := range []string{"View", "Update"} {
		head := "func (db *DB) " + fn + "(fn func(txn *Txn) error) error {\n"
		if strings.Count(patched, head) != 1 {
			fmt.Fprintln(os.Stderr, "autoyield: DB."+fn+" of badger does not have the expected shape")
			os.Exit(1)
		}
		patched = strings.Replace(patched, head, head+"\tif h := VerifHook; h != nil {\n\t\th(\"badger."+strings.ToLower(fn)+"\", \"\")\n\t}\n", 1)
	}
	// the writer yields before a batch of commits is written to the value log
	dbpath := filepath.Join(dir, "db.go")
	dbsrc, err := os.ReadFile(dbpath)
	if err != nil {
		fmt.Fprintln(os.Stderr, "autoyield:", err)
		os.Exit(1)
	}
	whead := "func (db *DB) writeRequests(reqs []*request) error {\n\tif len(reqs) == 0 {\n\t\treturn nil\n\t}\n"
	if strings.Count(string(dbsrc), whead) != 1 {
		fmt.Fprintln(os.Stderr, "autoyield: DB.writeRequests of badger does not have the expected shape")
		os.Exit(1)
	}
	dbpatched := strings.Replace(string(dbsrc), whead, whead+"\tif h := VerifHook; h != nil {\n\t\th(\"badger.write\", \"\")\n\t}\n", 1)
	if err := os.WriteFile(dbpath, []byte(dbpatched), 0o644); err != nil {
		fmt.Fprintln(os.Stderr, "autoyield:", err)
		os.Exit(1)
	}
	hook := "package badger\n\n// VerifHook, when set, is called by DB.Update between the user's function and\n// the commit (deterministic simulator only; this file exists only in the\n// scratch copy the simulator is built from).\nvar VerifHook func(point, arg string)\n\n// VerifCommitFault, when set, is asked before every commit of DB.Update; a\n// non-nil error is returned to the caller instead of committing (a disk\n// that refuses the write).\nvar VerifCommitFault func() error\n"
	if err := os.WriteFile(path, []byte(patched), 0o644); err == nil {
		err = os.WriteFile(filepath.Join(dir, "verif_hook.go"), []byte(hook), 0o644)
	}
	if err != nil {
		fmt.Fprintln(os.Stderr, "autoyield:", err)
		os.Exit(1)
	}
	fmt.Println("autoyield: badger DB.View and DB.Update yield before the transaction starts, DB.Update before commit, the writer before a batch is written")
}

func main() {
	if len(os.Args) == 3 && os.Args[1] == "-badger" {
		patchBadger(os.Args[2])
		return
	}
	root := os.Args[1]
	total := 0
	for _, sub := range []string{"", "store", "store/mockstore", "store/badgerstore", "middleware", "middleware/resbadger", "resprot", "logger"} {
		total += rewriteDir(filepath.Join(root, sub), sub != "")
	}
	fmt.Printf("autoyield: %d yield points inserted\n", total)
}

func rewriteDir(dir string, sub bool) int {
	subPackage = sub
	matches, _ := filepath.Glob(filepath.Join(dir, "*.go"))
	total := 0
	for _, path := range matches {
		base := filepath.Base(path)
		if strings.HasSuffix(base, "_test.go") || strings.HasPrefix(base, "verif_") {
			continue
		}
		fset := token.NewFileSet()
		f, err := parser.ParseFile(fset, path, nil, parser.ParseComments)
		if err != nil {
			fmt.Fprintln(os.Stderr, "autoyield:", err)
			os.Exit(1)
		}
		n := 0
		ast.Inspect(f, func(node ast.Node) bool {
			switch b := node.(type) {
			case *ast.BlockStmt:
				b.List = rewriteList(fset, base, b.List, &n)
			case *ast.CaseClause:
				b.Body = rewriteList(fset, base, b.Body, &n)
			case *ast.CommClause:
				b.Body = rewriteList(fset, base, b.Body, &n)
			}
			return true
		})
		if n == 0 {
			continue
		}
		if sub {
			// import the simulator's keylock stand-in under a name of its own
			spec := &ast.ImportSpec{Name: ast.NewIdent("verifkeylock"), Path: &ast.BasicLit{Kind: token.STRING, Value: `"github.com/jirenius/keylock"`}}
			f.Decls = append([]ast.Decl{&ast.GenDecl{Tok: token.IMPORT, Specs: []ast.Spec{spec}}}, f.Decls...)
			f.Imports = append(f.Imports, spec)
		}
		var buf bytes.Buffer
		if err := format.Node(&buf, fset, f); err != nil {
			fmt.Fprintln(os.Stderr, "autoyield:", err)
			os.Exit(1)
		}
		if err := os.WriteFile(path, buf.Bytes(), 0o644); err != nil {
			fmt.Fprintln(os.Stderr, "autoyield:", err)
			os.Exit(1)
		}
		total += n
	}
	return total
}
