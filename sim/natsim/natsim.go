// Package natsim is transport tier B: an in-process NATS server stub that
// speaks the NATS client protocol over net.Pipe, so that the real nats.go
// client (read loop, flusher, ping timer, drain logic, reconnect) runs inside
// a testing/synctest bubble. Routing uses the same subject semantics as tier
// A. It is ~250 lines written from the NATS protocol documentation and is
// part of the trusted base of the checks that use it.
package natsim

import (
	"bufio"
	"fmt"
	"io"
	"net"
	"strconv"
	"strings"
	"sync"

	"verif/sim/simconn"
)

// LogRec is one protocol-level event seen by the broker.
type LogRec struct {
	Conn    int
	Op      string // CONNECT SUB UNSUB PUB DISCONNECT
	Subject string
	Queue   string
	Reply   string
	SID     string
	Data    []byte
}

type sub struct {
	sid     string
	subject string
	queue   string
	max     int // auto-unsubscribe after max messages (0 = none)
	recv    int
}

type client struct {
	id     int
	b      *Broker
	conn   net.Conn
	out    chan []byte
	subs   map[string]*sub
	closed bool
	name   string
}

// Broker is the server stub.
type Broker struct {
	mu      sync.Mutex
	clients []*client
	nextID  int
	Log     []LogRec
	// RefuseDial makes Dial fail (server down).
	RefuseDial bool
	// MaxPayload is announced to clients in INFO (0 = 1 MiB).
	MaxPayload int
}

// New creates a broker.
func New() *Broker { return &Broker{} }

// Dial implements nats.CustomDialer.
func (b *Broker) Dial(network, address string) (net.Conn, error) {
	b.mu.Lock()
	if b.RefuseDial {
		b.mu.Unlock()
		return nil, fmt.Errorf("natsim: connection refused")
	}
	b.nextID++
	c := &client{id: b.nextID, b: b, out: make(chan []byte, 4096), subs: map[string]*sub{}}
	cl, srv := net.Pipe()
	c.conn = srv
	b.clients = append(b.clients, c)
	b.mu.Unlock()
	go c.writer()
	go c.reader()
	return cl, nil
}

func (c *client) send(p []byte) {
	select {
	case c.out <- p:
	default:
		// slow consumer at the server: drop the connection
		c.conn.Close()
	}
}

func (c *client) writer() {
	c.b.mu.Lock()
	maxPayload := c.b.MaxPayload
	c.b.mu.Unlock()
	if maxPayload == 0 {
		maxPayload = 1048576
	}
	info := fmt.Sprintf("INFO {\"server_id\":\"natsim\",\"version\":\"2.1.8\",\"proto\":1,\"host\":\"sim\",\"port\":4222,\"max_payload\":%d,\"client_id\":%d}\r\n", maxPayload, c.id)
	if _, err := c.conn.Write([]byte(info)); err != nil {
		return
	}
	for p := range c.out {
		if _, err := c.conn.Write(p); err != nil {
			return
		}
	}
}

func (c *client) reader() {
	defer c.drop()
	r := bufio.NewReader(c.conn)
	for {
		line, err := r.ReadString('\n')
		if err != nil {
			return
		}
		line = strings.TrimRight(line, "\r\n")
		if line == "" {
			continue
		}
		f := strings.Fields(line)
		switch strings.ToUpper(f[0]) {
		case "CONNECT":
			c.b.log(LogRec{Conn: c.id, Op: "CONNECT", Data: []byte(line)})
		case "PING":
			c.send([]byte("PONG\r\n"))
		case "PONG":
		case "SUB":
			s := &sub{}
			switch len(f) {
			case 3:
				s.subject, s.sid = f[1], f[2]
			case 4:
				s.subject, s.queue, s.sid = f[1], f[2], f[3]
			default:
				c.send([]byte("-ERR 'Unknown Protocol Operation'\r\n"))
				continue
			}
			if !simconn.ValidSubscribeSubject(s.subject) {
				c.b.log(LogRec{Conn: c.id, Op: "BADSUB", Subject: s.subject, SID: s.sid})
				c.send([]byte("-ERR 'Invalid Subject'\r\n"))
				continue
			}
			c.b.mu.Lock()
			c.subs[s.sid] = s
			c.b.Log = append(c.b.Log, LogRec{Conn: c.id, Op: "SUB", Subject: s.subject, Queue: s.queue, SID: s.sid})
			c.b.mu.Unlock()
		case "UNSUB":
			if len(f) < 2 {
				continue
			}
			c.b.mu.Lock()
			if s := c.subs[f[1]]; s != nil {
				if len(f) >= 3 {
					s.max, _ = strconv.Atoi(f[2])
					if s.max > 0 && s.recv < s.max {
						c.b.Log = append(c.b.Log, LogRec{Conn: c.id, Op: "UNSUBMAX", Subject: s.subject, SID: s.sid})
						c.b.mu.Unlock()
						continue
					}
				}
				delete(c.subs, f[1])
				c.b.Log = append(c.b.Log, LogRec{Conn: c.id, Op: "UNSUB", Subject: s.subject, SID: s.sid})
			}
			c.b.mu.Unlock()
		case "PUB":
			var subject, reply string
			var n int
			switch len(f) {
			case 3:
				subject = f[1]
				n, _ = strconv.Atoi(f[2])
			case 4:
				subject, reply = f[1], f[2]
				n, _ = strconv.Atoi(f[3])
			default:
				return
			}
			payload := make([]byte, n+2)
			if _, err := io.ReadFull(r, payload); err != nil {
				return
			}
			payload = payload[:n]
			c.b.route(c, subject, reply, payload)
		}
	}
}

func (c *client) drop() {
	c.b.mu.Lock()
	if !c.closed {
		c.closed = true
		c.subs = map[string]*sub{}
		c.b.Log = append(c.b.Log, LogRec{Conn: c.id, Op: "DISCONNECT"})
		close(c.out)
	}
	c.b.mu.Unlock()
	c.conn.Close()
}

func (b *Broker) log(r LogRec) {
	b.mu.Lock()
	b.Log = append(b.Log, r)
	b.mu.Unlock()
}

func (b *Broker) route(from *client, subject, reply string, payload []byte) {
	b.mu.Lock()
	b.Log = append(b.Log, LogRec{Conn: from.id, Op: "PUB", Subject: subject, Reply: reply, Data: payload})
	type target struct {
		c *client
		s *sub
	}
	var targets []target
	queues := map[string]bool{}
	for _, c := range b.clients {
		if c.closed {
			continue
		}
		// deterministic order of sids
		var sids []string
		for sid := range c.subs {
			sids = append(sids, sid)
		}
		sortStrings(sids)
		for _, sid := range sids {
			s := c.subs[sid]
			if !simconn.SubjectMatches(s.subject, subject) {
				continue
			}
			if s.queue != "" {
				if queues[s.queue] {
					continue
				}
				queues[s.queue] = true
			}
			targets = append(targets, target{c, s})
		}
	}
	for _, t := range targets {
		t.s.recv++
		if t.s.max > 0 && t.s.recv >= t.s.max {
			delete(t.c.subs, t.s.sid)
			b.Log = append(b.Log, LogRec{Conn: t.c.id, Op: "UNSUB", Subject: t.s.subject, SID: t.s.sid})
		}
	}
	b.mu.Unlock()
	for _, t := range targets {
		var hdr string
		if reply != "" {
			hdr = fmt.Sprintf("MSG %s %s %s %d\r\n", subject, t.s.sid, reply, len(payload))
		} else {
			hdr = fmt.Sprintf("MSG %s %s %d\r\n", subject, t.s.sid, len(payload))
		}
		msg := append(append([]byte(hdr), payload...), '\r', '\n')
		t.c.send(msg)
	}
}

func sortStrings(l []string) {
	for i := 1; i < len(l); i++ {
		for j := i; j > 0 && (len(l[j-1]) > len(l[j]) || (len(l[j-1]) == len(l[j]) && l[j-1] > l[j])); j-- {
			l[j-1], l[j] = l[j], l[j-1]
		}
	}
}

// Subscriptions returns the subjects currently subscribed on connection id
// (0 = all connections).
func (b *Broker) Subscriptions(id int) []string {
	b.mu.Lock()
	defer b.mu.Unlock()
	var out []string
	for _, c := range b.clients {
		if c.closed || (id != 0 && c.id != id) {
			continue
		}
		for _, s := range c.subs {
			out = append(out, s.subject)
		}
	}
	sortStrings(out)
	return out
}

// Route returns how many subscriptions of connection id a message on the
// subject would reach (queue groups: one member).
func (b *Broker) Route(id int, subject string) int {
	b.mu.Lock()
	defer b.mu.Unlock()
	n := 0
	queues := map[string]bool{}
	for _, c := range b.clients {
		if c.closed || c.id != id {
			continue
		}
		for _, s := range c.subs {
			if !simconn.SubjectMatches(s.subject, subject) {
				continue
			}
			if s.queue != "" {
				if queues[s.queue] {
					continue
				}
				queues[s.queue] = true
			}
			n++
		}
	}
	return n
}

// Disconnect closes the server side of connection id (network failure).
func (b *Broker) Disconnect(id int) {
	b.mu.Lock()
	var c *client
	for _, x := range b.clients {
		if x.id == id && !x.closed {
			c = x
		}
	}
	b.mu.Unlock()
	if c != nil {
		c.conn.Close()
	}
}

// LiveClients returns the ids of open connections.
func (b *Broker) LiveClients() []int {
	b.mu.Lock()
	defer b.mu.Unlock()
	var out []int
	for _, c := range b.clients {
		if !c.closed {
			out = append(out, c.id)
		}
	}
	return out
}

// LogSnapshot returns a copy of the protocol log.
func (b *Broker) LogSnapshot() []LogRec {
	b.mu.Lock()
	defer b.mu.Unlock()
	return append([]LogRec(nil), b.Log...)
}
