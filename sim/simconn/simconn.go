// Package simconn is transport tier A: a simulated NATS connection for a
// res.Service together with the routing model of the NATS server. It
// implements res.Conn directly and reproduces the behaviour of the nats.go
// client that go-res can observe: per-connection FIFO delivery, non-blocking
// channel delivery with drop on a full channel (slow consumer), client-side
// subject checks, errors after Close.
package simconn

import (
	"fmt"
	"strings"
	"sync"
	"sync/atomic"

	nats "github.com/nats-io/nats.go"

	"verif/sim/sched"
)

// Sub is one subscription of the simulated connection.
type Sub struct {
	ID      int
	Subject string
	Queue   string
	Ch      chan *nats.Msg
	NSub    *nats.Subscription
	Active  bool
	// Draining: the subscription was drained rather than removed: it takes
	// no new messages, but those already routed to it are still delivered
	// to its channel, as nats.go does until the drain has completed
	Draining bool
	Step     uint64
}

// PubRec is one publish attempt by the service.
type PubRec struct {
	Seq     uint64
	Step    uint64
	Task    string
	Subject string
	Reply   string
	Data    []byte
	Err     error
}

// Delivery is one message routed to the service.
type Delivery struct {
	ID      int // id of the injected message
	Sub     *Sub
	Msg     *nats.Msg
	Seq     uint64 // sequence number at delivery (0 while pending)
	Dropped string // "" or reason: "slow", "lost", "closed", "unsub"
	// Buffered is the number of messages the subscription's channel held
	// when this one was dropped as "slow"
	Buffered int
}

// Conn is the simulated connection.
type Conn struct {
	Sim *sched.Sim

	// mu plays the role of nats.Conn's internal mutex: it is an ordinary
	// mutex visible to the race detector.
	mu sync.Mutex

	Subs       []*Sub
	Inbound    []*Delivery // pending, FIFO
	Delivered  []*Delivery // history
	Pubs       []*PubRec
	Closed     bool
	CloseCount int
	nextMsgID  int

	// Fault configuration, consulted at call time on the caller's task.
	FailPublish   func(subject string) error
	FailSubscribe func(subject string) error

	// OnPublish is called (under mu) for each publish attempt; used by the
	// transport monitor.
	OnPublish func(p *PubRec)
	// OnSubscribe is called for each subscribe attempt.
	OnSubscribe func(s *Sub, err error)

	// NoYield disables the yield before each connection method.
	NoYield bool
	// YieldAfterPublish adds a yield point directly after a publish has been
	// recorded (the message is out, the publisher has not continued).
	YieldAfterPublish bool
	// YieldFn, when set, replaces Sim.Yield for the connection's yields.
	YieldFn func(point, arg string)

	Stats Stats

	// Connection handlers of the service (set through the verif-tagged
	// hook, as a *nats.Conn is given them through its setters). Like
	// nats.go the connection calls them from a goroutine of its own, so a
	// callback may run arbitrarily late.
	onReconnect, onDisconnect, onClosed func()
	// AsyncCallbacks counts the handler calls that were dispatched.
	AsyncCallbacks int

	// Blocking: a connection that hands messages over with a blocking send,
	// holding a delivery lock that Close needs too (restest.MockConn is
	// written like that, and the Conn interface allows it): a full channel
	// holds up the deliveries behind it and a concurrent Close until the
	// receiver has made room. Only one delivery is in flight at a time.
	Blocking bool
	blk      chan struct{}
	inflight *Delivery

	// sendSeq orders the scheduler's channel sends before Close, as
	// nats.Conn.Close waits for its reader goroutine: the scheduler only
	// ever adds to it, Close only loads it.
	sendSeq atomic.Int64
}

// Stats counts what happened at the transport seam.
type Stats struct {
	Publishes      int
	PublishErrors  int
	Subscribes     int
	SubErrors      int
	Delivered      int
	SlowDrops      int
	Lost           int
	AfterClose     int
	DeliveryPanics int
}

// VerifSetHandlers implements res.VerifConn.
func (c *Conn) VerifSetHandlers(reconnect, disconnect, closed func()) {
	c.mu.Lock()
	c.onReconnect, c.onDisconnect, c.onClosed = reconnect, disconnect, closed
	c.mu.Unlock()
}

// dispatch runs a connection handler on a goroutine of its own; its first
// act is a yield, so the scheduler decides when the callback runs.
func (c *Conn) dispatch(kind string, f func()) {
	if f == nil {
		return
	}
	go func() {
		c.yield("conn.callback", kind)
		f()
	}()
}

// Reconnected reports a disconnect followed by a reconnect to the service,
// as nats.go does after it has restored the subscriptions.
func (c *Conn) Reconnected() {
	c.mu.Lock()
	d, r := c.onDisconnect, c.onReconnect
	if c.Closed {
		d, r = nil, nil
	} else {
		c.AsyncCallbacks++
	}
	c.mu.Unlock()
	if d == nil && r == nil {
		return
	}
	// one dispatcher goroutine per connection: the callbacks run in order
	go func() {
		c.yield("conn.callback", "reconnect")
		if d != nil {
			d()
		}
		if r != nil {
			r()
		}
	}()
}

// New creates a connection.
func New(sim *sched.Sim) *Conn { return &Conn{Sim: sim, blk: make(chan struct{}, 1)} }

func (c *Conn) yield(point, arg string) {
	if c.NoYield || c.Sim == nil {
		return
	}
	if c.YieldFn != nil {
		c.YieldFn(point, arg)
		return
	}
	c.Sim.Yield(point, arg)
}

func (c *Conn) taskName() string {
	if c.Sim == nil {
		return ""
	}
	if t := c.Sim.Current(); t != nil {
		return t.Name
	}
	return "?"
}

// Publish implements res.Conn.
func (c *Conn) Publish(subject string, payload []byte) error {
	return c.publish(subject, "", payload)
}

// PublishRequest implements res.Conn.
func (c *Conn) PublishRequest(subject, reply string, data []byte) error {
	return c.publish(subject, reply, data)
}

func (c *Conn) publish(subject, reply string, payload []byte) error {
	c.yield("conn.Publish", subject)
	err := c.publishLocked(subject, reply, payload)
	if c.YieldAfterPublish {
		c.yield("conn.Published", subject)
	}
	return err
}

func (c *Conn) publishLocked(subject, reply string, payload []byte) error {
	task := c.taskName()
	c.mu.Lock()
	defer c.mu.Unlock()
	rec := &PubRec{Subject: subject, Reply: reply, Data: append([]byte(nil), payload...), Task: task}
	if c.Sim != nil {
		rec.Seq = c.Sim.Seq()
		rec.Step = c.Sim.Step()
	}
	c.Stats.Publishes++
	switch {
	case subject == "":
		rec.Err = nats.ErrBadSubject
	case c.Closed:
		rec.Err = nats.ErrConnectionClosed
		c.Stats.AfterClose++
	case c.FailPublish != nil:
		rec.Err = c.FailPublish(subject)
	}
	if rec.Err != nil {
		c.Stats.PublishErrors++
	}
	c.Pubs = append(c.Pubs, rec)
	if c.OnPublish != nil {
		c.OnPublish(rec)
	}
	return rec.Err
}

// ChanSubscribe implements res.Conn.
func (c *Conn) ChanSubscribe(subject string, ch chan *nats.Msg) (*nats.Subscription, error) {
	return c.subscribe(subject, "", ch)
}

// ChanQueueSubscribe implements res.Conn.
func (c *Conn) ChanQueueSubscribe(subject, queue string, ch chan *nats.Msg) (*nats.Subscription, error) {
	return c.subscribe(subject, queue, ch)
}

func (c *Conn) subscribe(subject, queue string, ch chan *nats.Msg) (*nats.Subscription, error) {
	c.yield("conn.Subscribe", subject)
	c.mu.Lock()
	defer c.mu.Unlock()
	c.Stats.Subscribes++
	var err error
	switch {
	case BadSubject(subject):
		err = nats.ErrBadSubject
	case queue != "" && strings.ContainsAny(queue, " \t\r\n"):
		err = nats.ErrBadQueueName
	case c.Closed:
		err = nats.ErrConnectionClosed
	case ch == nil:
		err = nats.ErrBadSubscription
	case c.FailSubscribe != nil:
		err = c.FailSubscribe(subject)
	}
	s := &Sub{ID: len(c.Subs) + 1, Subject: subject, Queue: queue, Ch: ch}
	if c.Sim != nil {
		s.Step = c.Sim.Step()
	}
	if err != nil {
		c.Stats.SubErrors++
		if c.OnSubscribe != nil {
			c.OnSubscribe(s, err)
		}
		return nil, err
	}
	s.Active = true
	s.NSub = &nats.Subscription{Subject: subject, Queue: queue}
	c.Subs = append(c.Subs, s)
	if c.OnSubscribe != nil {
		c.OnSubscribe(s, nil)
	}
	return s.NSub, nil
}

// Close implements res.Conn.
func (c *Conn) Close() {
	c.yield("conn.Close", "")
	c.sendSeq.Load()
	if c.Blocking {
		c.blk <- struct{}{}
		defer func() { <-c.blk }()
	}
	c.mu.Lock()
	defer c.mu.Unlock()
	c.CloseCount++
	if c.Closed {
		return
	}
	c.Closed = true
	if c.onClosed != nil || c.onDisconnect != nil {
		// nats.go reports a Close as a disconnect followed by closed, both
		// from its callback goroutine
		c.AsyncCallbacks++
		d, cl := c.onDisconnect, c.onClosed
		c.dispatch("closed", func() {
			if d != nil {
				d()
			}
			if cl != nil {
				cl()
			}
		})
	}
	for _, d := range c.Inbound {
		d.Dropped = "closed"
		c.Delivered = append(c.Delivered, d)
	}
	c.Inbound = nil
	for _, s := range c.Subs {
		s.Active = false
	}
}

// Unsubscribe deactivates the subscription with the given subject (the
// effect of Subscription.Drain/Unsubscribe reaching the server).
func (c *Conn) Unsubscribe(subject string) bool {
	c.mu.Lock()
	defer c.mu.Unlock()
	found := false
	for _, s := range c.Subs {
		if s.Active && s.Subject == subject {
			s.Active = false
			found = true
		}
	}
	return found
}

// Drain is Unsubscribe for a subscription that is drained: the messages
// already routed to it are still handed to its channel.
func (c *Conn) Drain(subject string) bool {
	c.mu.Lock()
	defer c.mu.Unlock()
	found := false
	for _, s := range c.Subs {
		if s.Active && s.Subject == subject {
			s.Active, s.Draining = false, true
			found = true
		}
	}
	return found
}

// ---- peer side (called by the scheduler goroutine or harness tasks) ----

// The peer-side functions below are called by the scheduler goroutine. In
// race builds they are hidden from the race detector (no instrumentation, and
// their lock operations are not synchronisation events), so that the
// scheduler never becomes a happens-before hub between tasks.

// Inject routes a message published by a peer to the service's
// subscriptions with NATS semantics and appends the resulting deliveries to
// the inbound FIFO. It returns the deliveries created.
//
//go:norace
func (c *Conn) Inject(subject, reply string, data []byte) []*Delivery {
	sched.RaceDisable()
	defer sched.RaceEnable()
	c.mu.Lock()
	defer c.mu.Unlock()
	c.nextMsgID++
	id := c.nextMsgID
	if c.Closed {
		return nil
	}
	var out []*Delivery
	seenQ := map[string]bool{}
	for _, s := range c.Subs {
		if !s.Active || !SubjectMatches(s.Subject, subject) {
			continue
		}
		if s.Queue != "" {
			// one member per queue group; this connection is the only
			// member, and all its matching subscriptions of the group
			// compete: the server picks one.
			if seenQ[s.Queue] {
				continue
			}
			seenQ[s.Queue] = true
		}
		d := &Delivery{ID: id, Sub: s, Msg: &nats.Msg{Subject: subject, Reply: reply, Data: data, Sub: s.NSub}}
		out = append(out, d)
		c.Inbound = append(c.Inbound, d)
	}
	return out
}

// PendingInbound returns the number of messages waiting to be delivered.
//
//go:norace
func (c *Conn) PendingInbound() int {
	sched.RaceDisable()
	defer sched.RaceEnable()
	c.mu.Lock()
	defer c.mu.Unlock()
	if c.Blocking && c.inflight != nil {
		// the delivery in flight holds up those behind it
		return 0
	}
	return len(c.Inbound)
}

// DeliverHead delivers the head of the inbound FIFO the way nats.go delivers
// to a channel subscription: a non-blocking send, dropping on a full channel.
// If lose is true the message is lost in the network instead.
//
//go:norace
func (c *Conn) DeliverHead(lose bool) *Delivery {
	sched.RaceDisable()
	defer sched.RaceEnable()
	c.mu.Lock()
	defer c.mu.Unlock()
	if len(c.Inbound) == 0 {
		return nil
	}
	d := c.Inbound[0]
	c.Inbound = c.Inbound[1:]
	if c.Sim != nil {
		d.Seq = c.Sim.Seq()
	}
	switch {
	case lose:
		d.Dropped = "lost"
		c.Stats.Lost++
	case !d.Sub.Active && !d.Sub.Draining:
		d.Dropped = "unsub"
	case c.Blocking:
		c.inflight = d
		go c.blockingSend(d)
	default:
		// the hand-over of the message is a real synchronisation event (as it
		// is between nats.go's reader goroutine and the receiver); the
		// scheduler goroutine never acquires anything from tasks, so this
		// release carries only its own history
		c.trySend(d)
	}
	c.Delivered = append(c.Delivered, d)
	return d
}

// trySend hands the message over the way nats.go does (non-blocking send,
// drop on a full channel). It is a named function because the //go:norace
// pragma does not extend to closures. nats.go would panic on its own
// goroutine, and take the process down, if the receiver closed the channel
// while the connection may still deliver; that panic is recorded.
//
//go:norace
func (c *Conn) trySend(d *Delivery) {
	defer c.recoverSend(d)
	ch, msg := d.Sub.Ch, d.Msg
	sched.RaceEnable()
	defer sched.RaceDisable()
	select {
	case ch <- msg:
		c.Stats.Delivered++
	default:
		d.Dropped = "slow"
		d.Buffered = len(ch)
		c.Stats.SlowDrops++
	}
	c.sendSeq.Add(1)
}

// blockingSend hands the message over with a blocking send, holding the
// delivery lock (blocking connections only, never in race builds).
func (c *Conn) blockingSend(d *Delivery) {
	c.blk <- struct{}{}
	defer func() {
		if v := recover(); v != nil {
			c.mu.Lock()
			c.Stats.DeliveryPanics++
			c.mu.Unlock()
		}
		c.mu.Lock()
		c.inflight = nil
		c.mu.Unlock()
		<-c.blk
	}()
	d.Sub.Ch <- d.Msg
	c.mu.Lock()
	c.Stats.Delivered++
	c.mu.Unlock()
}

//go:norace
func (c *Conn) recoverSend(d *Delivery) {
	if v := recover(); v != nil {
		d.Dropped = "panic: " + fmt.Sprint(v)
		c.Stats.DeliveryPanics++
	}
}

// Snapshot helpers ------------------------------------------------------

// PubsSnapshot returns a copy of the publish log.
func (c *Conn) PubsSnapshot() []*PubRec {
	c.mu.Lock()
	defer c.mu.Unlock()
	return append([]*PubRec(nil), c.Pubs...)
}

// ActiveSubs returns the active subscriptions.
func (c *Conn) ActiveSubs() []*Sub {
	c.mu.Lock()
	defer c.mu.Unlock()
	var out []*Sub
	for _, s := range c.Subs {
		if s.Active {
			out = append(out, s)
		}
	}
	return out
}

// IsClosed reports whether Close was called.
func (c *Conn) IsClosed() bool {
	c.mu.Lock()
	defer c.mu.Unlock()
	return c.Closed
}

// ---- NATS subject rules -------------------------------------------------

// BadSubject is nats.go's client-side check for subscription subjects.
func BadSubject(subj string) bool {
	if strings.ContainsAny(subj, " \t\r\n") {
		return true
	}
	for _, t := range strings.Split(subj, ".") {
		if len(t) == 0 {
			return true
		}
	}
	return false
}

// ValidSubscribeSubject implements the NATS server rule set for
// subscription subjects: non-empty tokens, no whitespace, '*' and '>' only
// as whole tokens, '>' only last.
func ValidSubscribeSubject(subj string) bool {
	if subj == "" || BadSubject(subj) {
		return false
	}
	toks := strings.Split(subj, ".")
	for i, t := range toks {
		if strings.ContainsAny(t, "*>") && len(t) > 1 {
			// wildcard characters inside a token are literal for the
			// server, but RES forbids them in names; treat as invalid.
			return false
		}
		if t == ">" && i != len(toks)-1 {
			return false
		}
	}
	return true
}

// ValidPublishSubject: a subscription-valid subject without wildcards.
func ValidPublishSubject(subj string) bool {
	if !ValidSubscribeSubject(subj) {
		return false
	}
	return !strings.ContainsAny(subj, "*>")
}

// SubjectMatches reports whether a concrete subject is matched by a
// subscription pattern with NATS semantics.
func SubjectMatches(pattern, subject string) bool {
	pt := strings.Split(pattern, ".")
	st := strings.Split(subject, ".")
	for i, p := range pt {
		if p == ">" {
			return i == len(pt)-1 && len(st) > i
		}
		if i >= len(st) {
			return false
		}
		if p == "*" {
			if st[i] == "" {
				return false
			}
			continue
		}
		if p != st[i] {
			return false
		}
	}
	return len(pt) == len(st)
}

// Route returns the subscriptions a message on subject would be delivered
// to, with NATS semantics (every matching plain subscription, one member per
// queue group), without delivering anything.
func (c *Conn) Route(subject string) []*Sub {
	c.mu.Lock()
	defer c.mu.Unlock()
	var out []*Sub
	seenQ := map[string]bool{}
	for _, s := range c.Subs {
		if !s.Active || !SubjectMatches(s.Subject, subject) {
			continue
		}
		if s.Queue != "" {
			if seenQ[s.Queue] {
				continue
			}
			seenQ[s.Queue] = true
		}
		out = append(out, s)
	}
	return out
}

// AllSubs returns every subscription attempt that succeeded, active or not.
func (c *Conn) AllSubs() []*Sub {
	c.mu.Lock()
	defer c.mu.Unlock()
	return append([]*Sub(nil), c.Subs...)
}
