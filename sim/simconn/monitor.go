package simconn

import (
	"bytes"
	"encoding/json"
	"fmt"
	"regexp"
	"strings"
)

// InboxInfo describes a reply subject a peer handed out.
type InboxInfo struct {
	IsHTTP bool
	Query  bool // reply inbox of a query request
}

// Monitor is the transport monitor: an independent validator of everything
// the service publishes, written against the RES service protocol text. It
// shares no code with go-res's codec.
type Monitor struct {
	Inboxes map[string]InboxInfo
	// Evals counts validated messages.
	Evals int
}

func NewMonitor() *Monitor { return &Monitor{Inboxes: map[string]InboxInfo{}} }

var preRespRe = regexp.MustCompile(`^timeout:"[0-9]+"$`)

func validPart(p string) bool {
	if p == "" {
		return false
	}
	for _, r := range p {
		if r < 33 || r > 126 || r == '?' || r == '*' || r == '>' || r == '.' {
			return false
		}
	}
	return true
}

func keysOf(m map[string]json.RawMessage) string {
	var ks []string
	for k := range m {
		ks = append(ks, k)
	}
	return strings.Join(ks, ",")
}

func isJSONString(r json.RawMessage) bool {
	var s string
	return json.Unmarshal(r, &s) == nil && len(bytes.TrimSpace(r)) > 0 && bytes.TrimSpace(r)[0] == '"'
}

func isNonNegInt(r json.RawMessage) bool {
	var n int64
	if err := json.Unmarshal(r, &n); err != nil {
		return false
	}
	return n >= 0 && bytes.TrimSpace(r)[0] != '"'
}

func stringList(r json.RawMessage) ([]string, bool) {
	var l []string
	if err := json.Unmarshal(r, &l); err != nil {
		return nil, false
	}
	return l, true
}

// IsPreResponse reports whether the payload is a timeout pre-response.
func IsPreResponse(data []byte) bool { return bytes.HasPrefix(data, []byte("timeout:")) }

// ValidateResponse checks a response payload; it returns "" if conformant.
func ValidateResponse(data []byte, isHTTP bool) string {
	if IsPreResponse(data) {
		if !preRespRe.Match(data) {
			return fmt.Sprintf("malformed pre-response %q", data)
		}
		return ""
	}
	var obj map[string]json.RawMessage
	if err := json.Unmarshal(data, &obj); err != nil || obj == nil {
		return fmt.Sprintf("response is not a JSON object: %q", data)
	}
	n := 0
	for k, v := range obj {
		switch k {
		case "result":
			n++
		case "resource":
			n++
			var ro map[string]json.RawMessage
			if json.Unmarshal(v, &ro) != nil || ro == nil || !isJSONString(ro["rid"]) {
				return fmt.Sprintf("resource response without string rid: %s", v)
			}
		case "error":
			n++
			var eo map[string]json.RawMessage
			if json.Unmarshal(v, &eo) != nil || eo == nil {
				return fmt.Sprintf("error is not an object: %s", v)
			}
			if !isJSONString(eo["code"]) || !isJSONString(eo["message"]) {
				return fmt.Sprintf("error without string code and message: %s", v)
			}
			for ek := range eo {
				if ek != "code" && ek != "message" && ek != "data" {
					return fmt.Sprintf("error with unknown member %q", ek)
				}
			}
		case "meta":
			if !isHTTP {
				return "meta on a response to a request not flagged as HTTP"
			}
			var mo map[string]json.RawMessage
			if json.Unmarshal(v, &mo) != nil || mo == nil {
				return fmt.Sprintf("meta is not an object: %s", v)
			}
			for mk, mv := range mo {
				switch mk {
				case "status":
					if !isNonNegInt(mv) {
						return "meta.status is not an integer"
					}
				case "header":
					var h map[string][]string
					if json.Unmarshal(mv, &h) != nil {
						return "meta.header is not a map of string lists"
					}
				default:
					return fmt.Sprintf("meta with unknown member %q", mk)
				}
			}
		default:
			return fmt.Sprintf("response with unknown member %q", k)
		}
	}
	if n != 1 {
		return fmt.Sprintf("response must have exactly one of result, resource, error; has members %s", keysOf(obj))
	}
	return ""
}

func emptyPayload(data []byte) bool {
	t := bytes.TrimSpace(data)
	return len(t) == 0 || string(t) == "null"
}

// Validate checks one publish. It returns a violation class and detail, or
// "" if the message is conformant.
func (m *Monitor) Validate(p *PubRec) (string, string) {
	m.Evals++
	subj := p.Subject
	if !ValidPublishSubject(subj) {
		return "invalid-subject", fmt.Sprintf("published on %q which is not a valid NATS publish subject", subj)
	}
	if info, ok := m.Inboxes[subj]; ok {
		if msg := ValidateResponse(p.Data, info.IsHTTP); msg != "" {
			return "malformed-response", fmt.Sprintf("on %s: %s", subj, msg)
		}
		return "", ""
	}
	toks := strings.Split(subj, ".")
	switch {
	case subj == "system.reset":
		var obj map[string]json.RawMessage
		if json.Unmarshal(p.Data, &obj) != nil || obj == nil || len(obj) == 0 {
			return "malformed-event", fmt.Sprintf("system.reset payload %q", p.Data)
		}
		for k, v := range obj {
			if k != "resources" && k != "access" {
				return "malformed-event", fmt.Sprintf("system.reset with unknown member %q", k)
			}
			if _, ok := stringList(v); !ok {
				return "malformed-event", fmt.Sprintf("system.reset %s is not a list of strings: %s", k, v)
			}
		}
	case subj == "system.tokenReset":
		var obj map[string]json.RawMessage
		if json.Unmarshal(p.Data, &obj) != nil || obj == nil {
			return "malformed-event", fmt.Sprintf("system.tokenReset payload %q", p.Data)
		}
		tids, ok := stringList(obj["tids"])
		if !ok || len(tids) == 0 || !isJSONString(obj["subject"]) || len(obj) != 2 {
			return "malformed-event", fmt.Sprintf("system.tokenReset payload %q", p.Data)
		}
	case toks[0] == "conn":
		if len(toks) != 3 || toks[2] != "token" || !validPart(toks[1]) {
			return "undocumented-subject", fmt.Sprintf("published on %q", subj)
		}
		var obj map[string]json.RawMessage
		if json.Unmarshal(p.Data, &obj) != nil || obj == nil {
			return "malformed-event", fmt.Sprintf("token event payload %q", p.Data)
		}
		if _, ok := obj["token"]; !ok {
			return "malformed-event", fmt.Sprintf("token event without token member: %q", p.Data)
		}
		for k, v := range obj {
			if k == "tid" && !isJSONString(v) {
				return "malformed-event", "token event tid is not a string"
			}
			if k != "token" && k != "tid" {
				return "malformed-event", fmt.Sprintf("token event with unknown member %q", k)
			}
		}
	case toks[0] == "event":
		if len(toks) < 3 {
			return "undocumented-subject", fmt.Sprintf("published on %q", subj)
		}
		name := toks[len(toks)-1]
		if !validPart(name) {
			return "malformed-event", fmt.Sprintf("invalid event name in %q", subj)
		}
		var obj map[string]json.RawMessage
		parse := func() bool { return json.Unmarshal(p.Data, &obj) == nil && obj != nil }
		switch name {
		case "change":
			var vals map[string]json.RawMessage
			if !parse() || len(obj) != 1 || json.Unmarshal(obj["values"], &vals) != nil || len(vals) == 0 {
				return "malformed-event", fmt.Sprintf("change event payload %q", p.Data)
			}
		case "add":
			if !parse() || len(obj) != 2 || obj["value"] == nil || !isNonNegInt(obj["idx"]) {
				return "malformed-event", fmt.Sprintf("add event payload %q", p.Data)
			}
		case "remove":
			if !parse() || len(obj) != 1 || !isNonNegInt(obj["idx"]) {
				return "malformed-event", fmt.Sprintf("remove event payload %q", p.Data)
			}
		case "create", "delete", "reaccess":
			if !emptyPayload(p.Data) {
				return "malformed-event", fmt.Sprintf("%s event with payload %q", name, p.Data)
			}
		case "query":
			var s string
			if !parse() || len(obj) != 1 || json.Unmarshal(obj["subject"], &s) != nil || !ValidPublishSubject(s) {
				return "malformed-event", fmt.Sprintf("query event payload %q", p.Data)
			}
		case "patch", "unsubscribe":
			return "malformed-event", fmt.Sprintf("reserved event name %q published", name)
		default:
			if len(bytes.TrimSpace(p.Data)) > 0 && !json.Valid(p.Data) {
				return "malformed-event", fmt.Sprintf("custom event payload is not JSON: %q", p.Data)
			}
		}
	default:
		return "undocumented-subject", fmt.Sprintf("published on %q, which is none of the documented forms", subj)
	}
	return "", ""
}
