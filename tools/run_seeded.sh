#!/bin/bash
# tools/run_seeded.sh [seed-id ...]
# Sensitivity self-assessment (not a registered command): for every kept
# seeded change, apply seeded/<id>/patch.diff to a scratch worktree of /repo
# (outside /repo and /verif, removed afterwards), run the checks listed in its
# meta.json (caught_by) against it at the quick tier and report whether each
# still raises a VIOLATION for its property.
cd "$(dirname "$0")/.."
ids="$@"; [ -z "$ids" ] && ids=$(ls seeded)
fail=0
for id in $ids; do
  wt=/tmp/seedwt-$id
  git -C /repo worktree remove --force $wt >/dev/null 2>&1; rm -rf $wt
  git -C /repo worktree add -q $wt HEAD || { echo "$id: cannot create worktree"; fail=1; continue; }
  if ! git -C $wt apply /verif/seeded/$id/patch.diff; then echo "$id: patch no longer applies"; fail=1; git -C /repo worktree remove --force $wt; continue; fi
  checks=$(python3 -c "import json;print(' '.join(json.load(open('/verif/seeded/$id/meta.json'))['caught_by']))")
  for p in $checks; do
    out=$(VERIF_REPO=$wt bin/check $p 2>&1); rc=$?
    if [ $rc -eq 1 ] && echo "$out" | grep -q "^VIOLATION property=$p "; then echo "$id: $p catches it"; else echo "$id: $p MISSES it (exit $rc)"; fail=1; fi
  done
  git -C /repo worktree remove --force $wt
  t=$(echo "$wt" | md5sum | cut -c1-8); rm -f .build/sim-$t.test .build/sim-$t-race.test .build/go-$t.mod .build/go-$t.sum
done
exit $fail
