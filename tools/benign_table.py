#!/usr/bin/env python3
# Regenerates the table of property-preserving changes of DESIGN.md (section
# 0.6) from benign/*/meta.json.
import json, glob, os, re
root = os.path.dirname(os.path.dirname(os.path.abspath(__file__)))
rows = ["| change | written to preserve | result | what it changes |", "|---|---|---|---|"]
for d in sorted(glob.glob(root + "/benign/*/")):
    m = json.load(open(d + "meta.json"))
    esc = lambda t: t.replace("|", "\\|").replace("\n", " ")
    rows.append("| `%s` | %s | %s | %s |" % (os.path.basename(d[:-1]), m["preserves"], esc(m["result"]), esc(m.get("note", ""))))
p = root + "/DESIGN.md"
s = open(p).read()
s = re.sub(r"<!-- benign-table-begin -->.*?<!-- benign-table-end -->", lambda _: "<!-- benign-table-begin -->\n" + "\n".join(rows) + "\n<!-- benign-table-end -->", s, flags=re.S)
open(p, "w").write(s)
print(len(rows) - 2, "benign changes")
