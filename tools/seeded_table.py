#!/usr/bin/env python3
# Regenerates the seeded-change table of DESIGN.md (section 0.5) from
# seeded/*/meta.json.
import json, glob, os, re
root = os.path.dirname(os.path.dirname(os.path.abspath(__file__)))
rows = ["| seeded change | breaks | caught by | needs | note |", "|---|---|---|---|---|"]
for d in sorted(glob.glob(root + "/seeded/*/")):
    m = json.load(open(d + "meta.json"))
    esc = lambda t: t.replace("|", "\\|").replace("\n", " ")
    rows.append("| `%s` | %s | %s | %s | %s |" % (os.path.basename(d[:-1]), m["property"], ", ".join(m["caught_by"]), esc(m["what_it_needs_to_manifest"]), esc(m.get("note", ""))))
p = root + "/DESIGN.md"
s = open(p).read()
s = re.sub(r"<!-- seeded-table-begin -->.*?<!-- seeded-table-end -->", lambda _: "<!-- seeded-table-begin -->\n" + "\n".join(rows) + "\n<!-- seeded-table-end -->", s, flags=re.S)
open(p, "w").write(s)
print(len(rows) - 2, "seeded changes")
