#!/bin/bash
# tools/eval_seed.sh <worktree> <demo command...>
# Verifies a seeded change in its scratch worktree: normalises the worktree to
# HEAD + PATCH.diff (+ untracked demonstration), checks that it compiles and
# that the existing tests pass with the change, that the demonstration fails
# with the change and passes without it (git apply -R, never git stash: the
# stash is shared between worktrees).
set -u
WT="$1"; shift
export GOFLAGS=-mod=mod GOPROXY=off GOSUMDB=off
cd "$WT" || exit 2
git checkout -q -- . && git apply PATCH.diff || { echo "PATCH.diff does not apply"; exit 2; }
echo "== files changed: $(git diff --name-only | tr '\n' ' ')"
echo "== build+vet"; go build ./... && go vet ./... 2>&1 | tail -3
DEMOS=$(git status --porcelain | grep '^??' | awk '{print $2}' | grep -v "PATCH.diff\|NOTES.md\|FOREIGN" | tr '\n' ' ')
echo "== demo files: $DEMOS"
mkdir -p /tmp/seed_demo_hold && rm -rf /tmp/seed_demo_hold/* && for f in $DEMOS; do mkdir -p /tmp/seed_demo_hold/$(dirname $f); mv $f /tmp/seed_demo_hold/$f; done
echo "== existing tests with the change (demo moved away)"; go test -count=1 -vet=off ./... 2>&1 | grep -v "no test files" | tail -5
for f in $DEMOS; do mv /tmp/seed_demo_hold/$f $f; done
echo "== demo WITH change (expected to fail)"; bash -c "$*" > /tmp/seed_demo.out 2>&1; echo "exit=$? $(grep -c FAIL /tmp/seed_demo.out) FAIL lines"; tail -3 /tmp/seed_demo.out | cut -c1-200
git apply -R PATCH.diff
echo "== demo WITHOUT change (expected to pass)"; bash -c "$*" > /tmp/seed_demo.out 2>&1; echo "exit=$?"; tail -2 /tmp/seed_demo.out | cut -c1-200
git apply PATCH.diff
