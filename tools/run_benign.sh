#!/bin/bash
# tools/run_benign.sh <worktree-or-patch-id> [check ...]
# False-alarm self-assessment (not a registered command): runs every check
# (or the ones named) at the quick tier against a scratch worktree that holds a
# property-preserving change and reports each check that does not exit 0.
# With an id of /verif/benign/<id>/ it creates the worktree from patch.diff.
cd "$(dirname "$0")/.."
wt="$1"; shift
made=""
if [ ! -d "$wt" ]; then
  id="$wt"; wt=/tmp/benignwt-$id
  git -C /repo worktree remove --force $wt >/dev/null 2>&1; rm -rf $wt
  git -C /repo worktree add -q $wt HEAD || exit 2
  git -C $wt apply /verif/benign/$id/patch.diff || { echo "$id: patch no longer applies"; git -C /repo worktree remove --force $wt; exit 2; }
  made=1
fi
checks="$@"; [ -z "$checks" ] && checks="C01 C02 C03 C04 C05 C07 C08 C09 C10 C11 C12 C13 C14 C15 C16 C19 C20"
fail=0
for p in $checks; do
  out=$(VERIF_REPO=$wt VERIF_SEED=${VERIF_SEED:-1} bin/check $p 2>&1); rc=$?
  if [ $rc -ne 0 ]; then fail=1; echo "$p: exit $rc"; echo "$out" | grep -E "VIOLATION|trouble|FAILED|panic|nondetermin" | head -5; else echo "$p: quiet"; fi
done
[ -n "$made" ] && git -C /repo worktree remove --force $wt
t=$(echo "$wt" | md5sum | cut -c1-8); rm -f .build/sim-$t.test .build/sim-$t-race.test .build/go-$t.mod .build/go-$t.sum
exit $fail
