#!/bin/bash
# tools/save_benign.sh <id> <worktree> <property> "<result>" "<note>"
# Keeps a property-preserving change (written by an independent sub-agent that
# saw only the property text and a scratch worktree) under benign/<id>/:
# patch.diff, the author's NOTES.md and stress test, meta.json.
id=$1; wt=$2; prop=$3; result=$4; note=${5:-}
d=/verif/benign/$id
mkdir -p $d/stress
cp $wt/PATCH.diff $d/patch.diff
[ -f $wt/NOTES.md ] && cp $wt/NOTES.md $d/NOTES.md
(cd $wt && git status --porcelain | grep '^??' | awk '{print $2}' | grep -v "PATCH.diff\|NOTES.md") | while read f; do
  # new library files are part of the patch already if the author used git add -N; otherwise keep them with the patch
  grep -q "^+++ b/$f" $wt/PATCH.diff && continue
  case "$f" in *_test.go) mkdir -p $d/stress/$(dirname $f); cp $wt/$f $d/stress/$f;; *) mkdir -p $d/newfiles/$(dirname $f); cp -r $wt/$f $d/newfiles/$f;; esac
done
python3 - "$d" "$prop" "$result" "$note" <<'PY'
import json,sys
d,prop,result,note=sys.argv[1:5]
json.dump({"preserves":prop,"result":result,"note":note,"what_was_run":"all 17 quick checks against a scratch worktree with the change (tools/run_benign.sh)","origin":"written by an independent sub-agent given only the property text and a scratch worktree, asked for a correct, non-trivial change of the code the property rests on; it verified build, vet, the existing tests (also under -race) and a stress test of its own with and without the change"},open(d+'/meta.json','w'),indent=1)
PY
echo saved $d
