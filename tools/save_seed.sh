#!/bin/bash
# tools/save_seed.sh <seed-id> <worktree> <property> "<needs>" "<ran>" "<caught_by>" "<note>"
id=$1; wt=$2; prop=$3; needs=$4; ran=$5; caught=$6; note=${7:-}
d=/verif/seeded/$id
mkdir -p $d/demo
cp $wt/PATCH.diff $d/patch.diff
[ -f $wt/NOTES.md ] && cp $wt/NOTES.md $d/NOTES.md
(cd $wt && git status --porcelain | grep '^??' | awk '{print $2}' | grep -v "PATCH.diff\|NOTES.md") | while read f; do mkdir -p $d/demo/$(dirname $f); cp -r $wt/$f $d/demo/$f; done
python3 - "$d" "$prop" "$needs" "$ran" "$caught" "$note" <<'PY'
import json,sys
d,prop,needs,ran,caught,note=sys.argv[1:7]
json.dump({"property":prop,"what_it_needs_to_manifest":needs,"what_was_run":ran,"caught_by":[c for c in caught.split(',') if c],"note":note,"origin":"written by an independent sub-agent given only the property text and a scratch worktree; confirmed in that worktree (compiles, existing tests pass with it, demonstration fails with it and passes without it)"},open(d+'/meta.json','w'),indent=1)
PY
echo saved $d
