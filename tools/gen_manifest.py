import json
checks=[]
def chk(pid, cat, text, note, tech, ref):
    checks.append({
      "property_id":pid,
      "quick_cmd":f"bin/check {pid} --tier quick",
      "thorough_cmd":f"bin/check {pid} --tier thorough",
      "evidence_file":f"evidence/{pid}.json",
      "replay_cmd_template":f"bin/check {pid} --replay {{path}}",
      "engine":"sim",
      "level_claimed":{"category":cat,"text":text,"design_ref":ref},
      "level_note":note,
      "technique":tech})
base_note="Trusted base: testing/synctest quiescence detection and fake clock (go1.26.8); the harness's SimConn model of nats.go channel delivery; yield points only at the hooks listed in DESIGN.md section 4, SimConn methods and harness handlers; seeded sampling of schedules, not enumeration."
tech="deterministic simulation: real goroutines released one at a time by a seeded scheduler inside a synctest bubble, simulated NATS transport with fault injection, online and history oracles, shrinking to a replayable tape"
chk("C01","exploration","Seeded exploration of interleavings of request delivery, With/WithResource/WithGroup from foreign goroutines, query requests/expiry and worker wake-ups over generated pattern/group configurations; per-group occupancy counter with reference group ids is checked at every callback entry.",base_note,tech,"5/C01")
chk("C02","exploration","Same runs as C01; recorded submit/deliver/start history is checked for per-group linear extension of submission precedence, at-most-once always and exactly-once at quiescence before clean shutdown, and With's error contract against the reference matcher.",base_note,tech,"5/C02")
chk("C03","exploration","Shutdown injected at tape-chosen steps into live workloads with 1-3 Serve/Shutdown cycles; bounded progress after faults stop, panic freedom (harness tasks and library goroutines), drain and close-once, and effect/no-effect of calls entirely inside the started/stopped windows.",base_note,tech,"5/C03")
chk("C04","exploration","Seeded exploration of handler behaviour scripts (reply/double reply/no reply/panic kinds/pre-responses/events/meta) x request kinds x payloads under concurrent load with slow-consumer drops, request loss and publish errors; exactly-one-response per reply inbox is decided at quiescence, which is a scheduler fact rather than a timeout.",base_note,tech,"5/C04")
chk("C05","exploration","Refinement of the running service against an executable dispatch model and a response model, per request, with other requests in flight on other workers; request data seen by the handler must equal what the peer sent for that inbox.",base_note+" The dispatch and response models are written from the RES protocol and go-res documentation and are part of the trusted base.",tech,"5/C05")
chk("C07","exploration","Transport monitor: every message the service publishes in the requests and core scenarios (including after injected marshal failures and publish errors) is validated at publish time by an independent protocol validator.",base_note+" The validator is written from the protocol text and is part of the trusted base.",tech,"5/C07")
chk("C08","exploration","One global log (apply handlers, SimConn at publish time, listeners) stamped with event sequence numbers and tasks; for each callback (request handler, With/WithResource callback, foreign-goroutine emitter) the entries on its task must equal the predicted apply/publish/listener sequence, under interleaved publishes of other goroutines.",base_note,tech,"5/C08")
chk("C09","exploration","Swarm over service names, ownership lists, handler-kind combinations and queue-group settings on the simulated broker with NATS routing and subject rules; coverage and non-redundancy are decided by routing generated concrete request subjects, reset content against an ownership model.",base_note+" The broker's subject matching and queue-group semantics are a stub written from the NATS documentation.",tech,"5/C09")
chk("C11","exploration","Concurrent client goroutines run random transactions on mockstore and on badgerstore over real BadgerDB; recorded histories are checked with porcupine against a per-id KV model, plus call-by-call error contract, write-transaction isolation (history windows and real-lock probing) and the OnChange callback chain.",base_note+" jirenius/keylock is replaced by a scheduler-visible stub; BadgerDB's internal goroutines are quiescence-controlled, not tape-controlled.",tech+"; porcupine linearizability check of recorded histories","5/C11")
chk("C10","exploration","store.Handler served through a simulated service over mockstore and real BadgerDB; a reference RES client cache replays, in connection order, the events of rounds of concurrent store mutations and is compared with a fresh get at quiescence, for every transformer/default/type configuration.",base_note+" The reference client cache is own code written from the RES client protocol; mockstore transactions are atomic steps.",tech,"5/C10")
chk("C13","exploration","Index queries raced against the real index worker on real BadgerDB: mutators are frozen at transaction boundaries, the worker stays schedulable, Flush()+Query results are compared with an exact reference scan for generated prefixes, filters, windows and directions.",base_note+" BadgerDB is trusted for atomic commit; its internal goroutines are quiescence-controlled, not tape-controlled.",tech,"5/C13")
chk("C14","exploration","Query-change callbacks recorded on the index worker: count and per-id order against the mutation log, index-reflects-mutation-first by querying inside the callback, and soundness of the affected predicate against reference results before/after each update; plus (handler layer) a reference client holding query results through store.QueryHandler.",base_note,tech,"5/C14")
chk("C12","fault_enumeration","Crash images of the real BadgerDB directory taken at occurrences of the instrumented kill points (before/inside/after each commit, inside Init, around each index task, after the rebuild drop; sampled in the quick tier, every occurrence in the thorough tier), plus torn-tail variants and dirty-restart generations; each image is reopened and checked against the acked model, then the restart procedure (Init, RebuildIndexes) is run on it and checked.",base_note+" Loss of acknowledged-but-unsynced data and kernel-level disk errors are not simulated (no VFS seam in BadgerDB v1.6.2); BadgerDB's own recovery is trusted to be what a real restart runs, since it is the real code.",tech+"; crash-point enumeration with crash images","5/C12")
chk("C15","exploration","Query events under tape-chosen timing of query requests relative to expiry on the simulated clock (inside the window, held by the listener or buffered in the channel when the timer fires, after the drain), channel overflow, subscription failure and every callback behaviour; response count and kind per request, nil-once-and-last, group occupancy, and a goroutine-stack scan for leaked listeners after shutdown.",base_note+" Tier A emulates the server-side effect of Subscription.Drain at the instrumented point directly after the call.",tech,"5/C15")
na=[
 {"property_id":"C06","reason":"Mux.GetHandler is a pure function of (pattern set, name): no schedule, clock, fault or multi-party history for a simulator to range over; routing is exercised by C01/C05 whose reference matcher would disagree, but the for-all over pattern sets is not claimed."},
 {"property_id":"C17","reason":"Pure string functions of (pattern, name, tag map); nothing concurrent, timed or faulty to simulate."},
 {"property_id":"C18","reason":"Pure marshal/unmarshal round trips; the one multi-party clause (client package parsing service responses) is incidentally exercised by C05's peer but is not a simulation decision."},
]
pending=["C16","C19","C20"]
for p in pending:
    na.append({"property_id":p,"reason":"check not built yet in this revision of /verif (planned in DESIGN.md section 5); not claimed until its scenario and oracle exist"})
m={"version":1,
 "setup_cmd":"bin/check build && SELFTEST_N=60 bin/check selftest",
 "hooks":{"guard":"verif","enable":"go1.26.8 test -c -tags verif (GOTOOLCHAIN=local, GOFLAGS=-mod=mod, GOPROXY=off) in /verif/sim with replace github.com/jirenius/go-res => /repo",
   "baseline_off_cmd":"cd /repo && go test -vet=off -count=1 -timeout 25m ./...",
   "source_commits":["5c29dd4","8aafb2b"],"add_only":True},
 "engines":[{"name":"sim","path":"sim/","serves_properties":[c["property_id"] for c in checks],"kind_free_text":"deterministic simulator: synctest bubble + yield-hook scheduler + choice tape + simulated NATS connection/broker + reference models; compiled test binary driven by bin/check"}],
 "checks":checks,
 "not_applicable":na,
 "notes":"Genuine defects found and repaired in /repo are listed in known_findings.json (fixed entries suppress nothing)."}
json.dump(m,open('/verif/MANIFEST.json','w'),indent=1)
