#!/bin/bash
# tools/hunt_nondet.sh [base] [n] [copies]
# A harsher determinism hunt than `bin/check selftest` (not a registered
# command): every scenario's first n runs are executed by `copies` worker
# processes at the same time (GOMAXPROCS 1,2,4,8,16 in turn), so that they
# compete for the cores, and the per-run trace hashes are compared.
cd "$(dirname "$0")/.."
base=${1:-1}; n=${2:-150}; copies=${3:-10}
bin/check build || exit 2
BIN=.build/sim.test
out=$(mktemp -d /tmp/hunt.XXXXXX)
rc=0
for scen in core crash events index legacy qmock qsub queryevent race requests sendreq storecoh storelin subs; do
  for i in $(seq 1 $copies); do
    p=$(( (1 << (i % 5)) ))
    ( GOMAXPROCS=$p $BIN -test.run '^TestSim$' -test.timeout 0 -sim.role=worker -sim.scenario=$scen -sim.hashonly -sim.base=$base -sim.from=0 -sim.n=$n -sim.out=$out/$scen.$i >/dev/null 2>&1 ) &
  done
  wait
  ref=$out/$scen.1
  bad=0
  for i in $(seq 2 $copies); do
    if ! cmp -s $ref $out/$scen.$i; then
      bad=1
      echo "NONDETERMINISM scenario=$scen copy=$i: $(diff $ref $out/$scen.$i | head -2 | cut -c1-160 | tr '\n' ' ')"
    fi
  done
  [ $bad = 0 ] && echo "hunt $scen: $copies copies of $(wc -l < $ref) runs identical (base $base)" || rc=1
done
rm -rf $out
exit $rc
